#!/usr/bin/env python3
"""Print the markdown table of /verif/seeded/*/meta.json (used for DESIGN.md section 9)."""
import glob, json, os
V = os.path.dirname(os.path.dirname(os.path.abspath(__file__)))
rows = []
n = {r: [0, 0] for r in range(1, 10)}
for f in sorted(glob.glob(os.path.join(V, "seeded", "*", "meta.json"))):
    m = json.load(open(f))
    r = m.get("round", 1)
    n[r][0] += 1
    if m.get("first_result") == "CAUGHT":
        n[r][1] += 1
        out = "caught at once"
    elif m.get("out_of_scope"):
        out = "**not caught — outside the stated property** (see meta.json)"
    elif m.get("caught_by_other_property"):
        out = "missed by %s, caught at once by %s (whose statement it breaks)" % (m["breaks_property"], m["caught_by_other_property"])
    else:
        out = "missed → check strengthened → caught"
    now = [v for p, t in m["checks"].items() for k, v in t.items() if p == m["breaks_property"]]
    rows.append("| %s | %d | %s | %s | %s |" % (m["id"], r, m["breaks_property"], m["needs_to_manifest"].replace("|", "\\|"), out))
print("| id | round | property | needs, in order to manifest | outcome |")
print("|----|-------|----------|-----------------------------|---------|")
print("\n".join(rows))
print()
print("round 1: %d seeded, %d caught by the quick tier as it was then; round 2: %d seeded, %d caught at once; round 3: %d seeded, %d caught at once; round 4: %d seeded, %d caught at once; round 5: %d seeded, %d caught at once; round 6: %d seeded, %d caught at once; round 7: %d seeded, %d caught at once; round 8: %d seeded, %d caught at once; round 9: %d seeded, %d caught at once"
      % (n[1][0], n[1][1], n[2][0], n[2][1], n[3][0], n[3][1], n[4][0], n[4][1], n[5][0], n[5][1], n[6][0], n[6][1], n[7][0], n[7][1], n[8][0], n[8][1], n[9][0], n[9][1]))
