#!/bin/bash
# tools/run_all.sh TIER [ids...]: run checks one after another; summary line per property.
tier=${1:-quick}; shift
ids=${@:-C01 C02 C03 C04 C05 C06 C07 C08 C09 C10 C11 C12 C13 C14 C15 C16 C17 C18 C19 C20}
cd "$(dirname "$0")/.."
./check --setup >/dev/null 2>&1
mkdir -p scratch
for p in $ids; do
  s=$(date +%s)
  ./check $p --tier $tier > scratch/run_${tier}_$p.log 2>&1; rc=$?
  e=$(date +%s)
  echo "$p tier=$tier rc=$rc $((e-s))s violations=$(grep -c '^VIOLATION' scratch/run_${tier}_$p.log) $(grep -E '^(INCONCLUSIVE|KNOWN-FINDING)' scratch/run_${tier}_$p.log | cut -c1-80 | head -2 | tr '\n' ' ')"
  grep -A3 '^VIOLATION' scratch/run_${tier}_$p.log | head -12 | cut -c1-600
done
