#!/usr/bin/env python3
"""tools/pm.py KIND PATTERN SUBJECT... — show find's answer and the oracles' for pattern tests (debug aid)."""
import os, sys, tempfile
sys.path.insert(0, os.path.join(os.path.dirname(os.path.abspath(__file__)), "..", "lib"))
import common, fnm, posixfn
kind, pat, subs = sys.argv[1], sys.argv[2], sys.argv[3:]
d = tempfile.mkdtemp(dir="/dev/shm")
paths = [("d/" + s if kind in ("-name", "-iname") else s) for s in subs]
line = "\t".join(["x", "P", "1", "2", common.hx(kind), common.hx(pat)] + [common.hx(p) for p in paths])
r = common.run_vh("match", [line], d, cwd=d)["x"]
print("impl:", r[0], common.unhx(r[1]).decode(), r[2] if len(r) > 2 else "")
cf = kind[1] == "i"
for s in subs:
    fnm.set_locale("C.UTF-8"); a = fnm.fnmatch(pat, s, cf)
    fnm.set_locale("C"); b = fnm.fnmatch(pat, s, cf)
    try: p = posixfn.fnmatch(pat, s, cf)
    except posixfn.Unsupported as e: p = "unsupported(%s)" % e
    print(repr(s), "glibc-utf8", a, "glibc-C", b, "posixfn", p)
os.rmdir(d)
