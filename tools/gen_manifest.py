#!/usr/bin/env python3
"""Regenerate /verif/MANIFEST.json from the table below (single source of truth for check registration)."""
import json
import os
import subprocess

VERIF = os.path.dirname(os.path.dirname(os.path.abspath(__file__)))

CHECKS = {
    "C01": dict(
        technique="runtime monitoring: reference-model oracle over recorded action outputs (in-process find_main + binary), random stratified expression workload",
        level="exploration",
        text="Every execution of the real find_main/binary on a generated expression and tree is compared byte-for-byte (stdout, -fprint* files, recorder log of -exec) with an independent reference evaluation of the same token list; quick ~25k expressions / 14k distinct operator shapes, thorough ~600k. Held means: no observed execution deviated.",
        note="Trusts lib/refeval.py + lib/refwalk.py (self-checked against a hand-derived table each run) and glibc fnmatch for simple -name patterns; trees on tmpfs, follow mode -P only, 1-3 starting points; expression depth <= 7. Round 9: operands spelled like operators for -printf/-path/-iname.",
        ref="DESIGN.md section 4 C01"),
    "C02": dict(
        technique="runtime monitoring: multiset oracle (independent lstat/stat walker) over -print0 output, stderr and exit status; fault injection (mode-000 directory walked as uid 65534)",
        level="exploration",
        text="Each run of the real find (in-process find_main and the binary) over random trees with every kind of link, 1-3 starting points, all follow modes, (mindepth,maxdepth) pairs including min>max and -depth is compared as a multiset with an independent reference walk; exit status/diagnostic against modelled error events (missing root, unreadable directory, directory cycle). Quick ~3.5k runs, thorough ~150k.",
        note="Trusts lib/refwalk.py (self-checked); cycle-closing links and unreadable directories themselves are optional in the output; ELOOP links not judged for exit status; tmpfs only. Round 7: 255-768 cycle-closing links in one -L walk; chain trees deeper than RLIMIT_NOFILE (lib/deep.py).",
        ref="DESIGN.md section 4 C02"),
    "C03": dict(
        technique="runtime monitoring: exact visit-sequence oracle (reference sorted DFS with prune predicate from the reference evaluator) + oracle-free metamorphic relation (-depth with/without -prune)",
        level="exploration",
        text="The complete sequence printed by find r -sorted [-depth] EXPR is compared with the reference pre/post-order walk for 8 prune expression shapes and name/path/iname/regex/glob selections on trees whose sibling names separate byte order from locale order; under -depth/-delete the run with -prune replaced by -true must print the same bytes. Quick ~3.5k sequences, thorough ~110k.",
        note="Prune workload under -P, -L and -H (link loops out of domain); -xdev/-mount over trees with tmpfs mounts inside the sandbox (skipped and noted where mounting is not permitted). Known finding H-symlinked-root-depth-directory-released-late (known_findings.json) is matched by exact signature. Trusts refwalk/refeval. Round 8: -prune on a directory that a later action removes, with/without -xdev and -sorted.",
        ref="DESIGN.md section 4 C03"),
    "C04": dict(
        technique="runtime monitoring: invariant checker over the recorder log (argv of every child, in order) of the real xargs binary: conservation, fixed prefix, -n/-L/-s limits, maximality, empty-input and oversize rules",
        level="exploration",
        text="Every xargs run's child argv sequence is checked against the unique maximal batching implied by the statement's invariants, computed from the reference tokenisation; option values are chosen so that each limit, and two limits at once, bind. Quick 3.2k runs / 7k children, thorough 96k runs.",
        note="Inputs free of quotes/backslashes (C05 owns those); -x overflow coinciding with an -n/-L boundary not judged; for inputs larger than one command line (no binding limit option, or -s far above the system budget) conservation/order/prefix/exit status are judged, maximality against the system budget is not (C06 owns the budget).",
        ref="DESIGN.md section 4 C04"),
    "C05": dict(
        technique="runtime monitoring: online chunking-independence checker on the hooked real readers (bounded-exhaustive inputs x cut sets, injected EINTR) + reference tokenizer oracle + binary fed by a chunked writer",
        level="exploration",
        text="Exhaustive over an 8-symbol separator/quote/escape/letter/multibyte alphabet up to length 6 (quick, 300k inputs, 8M input-chunking pairs) / 8 (thorough, 19M inputs), every cut set for short inputs, plus long inputs straddling the 4096/8192 buffer edges under 20 chunkings, -0 and -d modes, and a binary sample. Any chunking whose result differs from the unchunked one, or any unchunked result differing from the reference tokenizer, is a violation.",
        note="Hook xargs::verif::split constructs the two private readers exactly as do_xargs does. Not judged: stand-alone empty quoted tokens, newline inside quotes, trailing backslash, VT/NUL in default mode, empty fields in -0/-d mode. CR/FF in default mode are judged under both readings (separator or ordinary byte), never as a line end.",
        ref="DESIGN.md section 4 C05"),
    "C06": dict(
        technique="runtime monitoring: strace execve event log (E2BIG = refutation) + exit status + compact recorder log with running CRC chain (exactly-once, order) under an rlimit/environment grid",
        level="exploration",
        text="xargs is run under strace -f over a grid of argument counts up to 6e5 (quick) / 1e6 (thorough), length distributions from 1 byte to the 131071-byte per-argument limit, environment sizes to 1MB, RLIMIT_STACK 512KiB..unlimited, with/without -n/-s (including -s above the OS budget); the kernel itself is the oracle for acceptance, the recorder chain for delivery. Over-long single arguments must give exit 1 and never reach exec.",
        note="Verdict is for this kernel's execve accounting and glibc sysconf(ARG_MAX); per-argument limit = 32 pages.",
        ref="DESIGN.md section 4 C06"),
    "C07": dict(
        technique="runtime monitoring: byte-exact oracle over find's stdout (tree spec with known name bytes) + recorder argv multiset/sequence behind the real `find -print0 | xargs -0` pipe",
        level="exploration",
        text="Trees whose names are drawn from hostile valid-UTF-8 classes (blank-only, edge blanks, leading dashes, newlines, quotes, backslashes, {}, command substitutions, glob and control characters, 2-4-byte characters, 255-byte names) are walked by the real find with -print0/-print (root spelled r, ./r, r/, absolute); stdout must equal the concatenation of the known path bytes plus terminator, and the argv recorded behind xargs -0 must be the same sequence.",
        note="Valid UTF-8 names only (as the statement says); tmpfs; the many-paths pipelines run xargs under a 512 KiB-2 MiB stack limit.",
        ref="DESIGN.md section 4 C07"),
    "C08": dict(
        technique="runtime monitoring: recorder event log (argv+cwd per child) checked for exactly-once/order/fixed-prefix/one-directory-per-batch invariants against the reference evaluation; strace execve log (E2BIG = refutation); exit status under scripted failures",
        level="exploration",
        text="Small runs: random and hostile trees x 8 expression shapes (after tests, in -o, negated, -quit, two + actions, -depth, -maxdepth) x -exec/-execdir x 1-2 starting points x scripted failing batches / missing command. Big runs: 2000-6000 (quick) / to 40000 (thorough) paths with 100-240-byte names in flat and deep layouts under RLIMIT_STACK 512KiB..unlimited and padded environments, traced with strace, giving up to dozens of batches per run.",
        note="Starting points spelled without '..' or '/.'; verdict for this kernel's execve accounting. Round 7: working directories of 3.7-5 kB with a relative starting point; mode-000 starting points walked as uid 65534 (skipped and noted where uid 65534 cannot execute the recorder). Round 8: commands that exist but cannot be started (no execute bit, a directory, not an executable format).",
        ref="DESIGN.md section 4 C08"),
    "C09": dict(
        technique="runtime monitoring: recorder argv/cwd per child vs textual substitution model; truth value observed through a following labelled action; find exit status",
        level="exploration",
        text="Hostile file names x argument templates with 0-3 {} per argument (embedded, adjacent, lone braces, empty arguments, arguments that look like find primaries) x -exec/-execdir x 7 placements of the action (plain, after tests, negated, in -o, twice, missing command); the recorder's exit status is a pure function of argv, so the expected truth of every evaluation is computable.",
        note="'{}' in the command name itself not judged; exit status of a following '{} +' action not judged. Round 7: untidily spelled starting points (r/, r//, r/., r/./sub) for -exec ;, the command as a bare name behind an unexecutable namesake in PATH. Round 8: find's stdout on /dev/full with output pending in front of the action (one run per entry all the same).",
        ref="DESIGN.md section 4 C09"),
    "C10": dict(
        technique="runtime monitoring: strace log of every mutating syscall of find + before/after snapshots of the sandbox and of the directories links point to, vs a model replay of the -depth -print order on a twin copy",
        level="exploration",
        text="Sandboxes with nested directories, links to files and directories inside and outside the starting points, dangling links; state-independent expressions leaving some matched directories non-empty; follow modes -P/-H/-L; 1-2 starting points incl. a symlinked one. Successful removals in the strace log must equal the replayed ones in order, no other mutating syscall may occur, the after-snapshot must equal the twin's, and exit status/diagnostic/truth must reflect failed removals.",
        note="Tests whose truth depends on earlier deletions (-empty, -links, -newer*) not used; runs as root (mknod for device nodes). Round 7: matched links that point at find's working directory; chains deeper than RLIMIT_NOFILE. Round 8: -follow written before or after -delete. Round 9: several of -P/-H/-L in front (the last decides).",
        ref="DESIGN.md section 4 C10"),
    "C11": dict(
        technique="runtime monitoring: (a) ill-formed-by-construction argument vectors observed for exit status, stderr, stdout, child processes (recorder log) and sandbox snapshot; (b) totality fuzzing of the real find_main under catch_unwind with a per-case watchdog (privileges dropped to uid 65534), plus the binary for non-UTF-8 arguments; pattern-bearing vectors replayed under valgrind memcheck (crash = violation, reports advisory)",
        level="exploration",
        text="(a) 14 corruption kinds (binary operator first/last/before ')'/after '(', adjacent operators incl. '! -a', '!' before ')', unbalanced and empty parentheses, missing operand for 44 primaries, 28 unknown primaries, invalid operands for -type -xtype -size -links -inum -uid -gid the six time tests -perm -regextype -user -group -printf -newer* -newerXt, unbalanced -regex per syntax, 11 malformed -exec forms) applied to random valid expressions that contain printing, executing and deleting actions; (b) random vectors over 78 primaries, operators and parentheses with operands from valid values, near misses and ~150 arbitrary strings, on a tree with every file type, foreign owners, an unreadable directory, an ELOOP link, a 3GiB sparse file, a 60-character name and hostile names; (c) ~300 targeted shapes: every test/action evaluated on entries removed by an earlier -delete / -exec rm, every -printf directive on every type, patterns on which the regex engine gives up, non-UTF-8 arguments. Quick ~12k vectors.",
        note="Creation/truncation of -fprint* files named before the error is not judged; an empty -newerXt operand is deliberately valid in this implementation (pinned by its test-suite); a watchdog firing is re-run alone before it counts as a hang; -printf widths between 10^6 and 10^19 are not generated (they legitimately produce megabytes to exabytes of padding). Round 7: 64 TZ values (clock change at local midnight yesterday/today/tomorrow, far offsets, unusable values) x 13 time-test shapes through the binary (depends on the day the check runs).",
        ref="DESIGN.md section 4 C11"),
    "C12": dict(
        technique="runtime monitoring: differential oracle over executions of the real matcher objects (in-process), real symlinks (-lname) and the binary: glibc fnmatch(3) in two locales AND an independent POSIX matcher must agree for a pair to be judged; a sample of pattern rows replayed under valgrind memcheck (native Oniguruma engine; crash = violation, reports advisory)",
        level="exploration",
        text="Bounded-exhaustive: every pattern of length <=3 (quick) / <=4 (thorough) over {a b * ? [ ] ! \\ - .} against every subject of length <=3/<=4 over a 10-symbol alphabet, for -name -iname -path -ipath; structured random patterns (regex metacharacters as literals, escapes, bracket expressions with negation, leading ], ranges, classes, '[' members, trailing -, stray [ ] !, lone trailing backslash) with subjects sampled from the pattern and mutated (prefix, suffix, extension, substitution, case) for all six spellings; -lname/-ilname on real symbolic links; -name/-iname through the find binary on real files. Quick ~5M judged pairs.",
        note="Judged only where glibc(C.UTF-8) = glibc(C) = lib/posixfn.py; out of domain (counted): backslash or mid-list '-' inside brackets, '[^', non-alphanumeric ranges, collating/equivalence syntax, [:upper:]/[:lower:] under -i forms, classes against non-ASCII characters, subjects '.'/'..' for -name. Round 9: the root directory spelled with 1-6 slashes as a starting point (-name sees '/', -path the spelling).",
        ref="DESIGN.md section 4 C12"),
    "C17": dict(
        technique="runtime monitoring: differential oracle (Python re.fullmatch on the same regex AST) over executions of the matcher objects built by the real parser (in-process) and of the find binary on a real tree; metamorphic twin with every alternation reversed; generated and deliberately damaged patterns replayed under valgrind memcheck (crash = violation, reports advisory)",
        level="exploration",
        text="Random regex ASTs (literals incl. every metacharacter, '.', bracket sets with ranges and negation, groups, alternation, * + ? and intervals) are rendered into emacs, posix-basic, ed, sed, posix-extended and grep syntax using only the operators each syntax defines, placed under 8 -regextype scoping shapes (plain, default, inside parentheses, after a closed parenthesis, type inside parentheses, two types in one expression, overridden, negated), and applied to paths sampled from the AST and mutated (proper prefixes, extensions, substitutions, case changes). Quick ~24k ASTs / ~1.5M judged (pattern, path) pairs plus ~1000 binary runs.",
        note="Known finding first-match-shorter-than-path (known_findings.json) is matched by exact mechanism signature; pairs on which Oniguruma gives up (diagnosed on stderr) are out of domain; no back-references, anchors or classes; paths without newline. Round 8: a quantifier directly followed by '?' in the emacs syntax (240 patterns, whole-path oracle).",
        ref="DESIGN.md section 4 C17"),
    "C13": dict(
        technique="runtime monitoring: stat-record oracle (os.lstat/os.stat/os.readlink per follow rule) over labelled test batches evaluated by the real find (in-process find_main + binary sample) on a sandbox with every file type",
        level="exploration",
        text="Per worker one sandbox with every creatable type (regular, directory, fifo, socket, char/block device), links to each, link chains, dangling links, hard-link groups 1-6, 64 (quick) / 4096 (thorough) permission values, 25 owner/group combinations; 22 starting points so that links of every kind occur at depth 0, 1 and deeper; ~2200 (quick) distinct (mode, test) pairs over -type/-xtype, -perm exact/-/ in octal, 0-octal and symbolic spellings of the same mode, -links/-inum/-uid/-gid N/+N/-N, -user/-group by name and number, -empty, -samefile, -lname/-ilname under -P/-H/-L: ~700k (entry, test, mode) evaluations, of which ~8k are ones where the link's and the target's record give different answers.",
        note="ELOOP links, X in symbolic modes, -nouser/-nogroup and symbolic links as -samefile reference are not judged; tmpfs; runs as root (mknod/chown). Round 8: lead-option lists with several of -P/-H/-L (the last one decides).",
        ref="DESIGN.md section 4 C13"),
    "C14": dict(
        technique="runtime monitoring: oracle-free invariants (the three forms -N/N/+N partition the files; +N/-N monotone in N) plus integer-arithmetic oracle on os.lstat records, over labelled clause triples evaluated in-process with an injected clock",
        level="exploration",
        text="About 150 files per worker: sparse files of size 0,1,2 and k*u-1,k*u,k*u+1 for every unit and k in {1,2,3,1023,1024}, 2^32/2^33/2^40/2^62 (+-1), 2^63-1; hard-link groups; chown'ed files; files with injected ages around day/minute boundaries incl. the future. Operands around every file's rounded value for each of c,w,b,none,k,M,G, 0/1/2 and 2^31..2^64-1; -links/-inum/-uid/-gid; the six time tests (trichotomy and monotonicity, oracle for ages >= 0). Quick ~450 triples x ~150 files.",
        note="N >= 2^64 only in the over-wide-operand runs (rejected, or compared as spelled); negative ages judged for trichotomy and monotonicity only; the mount-point rounds need mount permission (skipped and counted otherwise). Round 8: FIFO, socket and device-node entries in the random rounds. Round 9: operands of 2^64 and more.",
        ref="DESIGN.md section 4 C14"),
    "C15": dict(
        technique="runtime monitoring: ns-resolution integer oracle on os.lstat records with the clock injected through Dependencies::now(); timestamps set with utimensat, ctime read back and `now` placed relative to it",
        level="exploration",
        text="Age runs: 8-20 files whose atime and mtime are set independently to now-(k*period+e) for period in {day, minute}, k in {0,1,2,3,5,30,400}, e in {0,+-1ns,+-1ms,+-1s,half}; in half of the runs now = ctime(file) + k*period + e; all six -Xtime/-Xmin tests with N,+N,-N around every value. Newer runs: reference files with three different timestamps; entries whose atime/mtime is Y(ref) -1ns/0/+1ns (+-1us, +-1s); a second reference placed within 1ns of an entry's ctime; all nine -newerXY, -newer, -anewer, -cnewer. Quick ~450k evaluations, ~250k on a period boundary, ~4k within 1ns of the reference.",
        note="-daystart, -newerXt, birth time not judged; ages >= 0; in-process only (the binary cannot be given a clock). Round 7: 40% of the age runs under a POSIX TZ whose clocks changed near `now`; links with time stamps of their own among the entries under -P/-H/-L.",
        ref="DESIGN.md section 4 C15"),
    "C16": dict(
        technique="runtime monitoring: independent renderer (Python, from os.lstat/os.stat/os.readlink and string operations on the path text) compared byte-for-byte with the output captured from the real find (in-process, binary sample, -fprintf files read back); oracle-free identities %p = -print and %H/%P recomposition",
        level="exploration",
        text="Random format strings (1-8 pieces: ASCII and multi-byte literals, every escape incl. \\NNN, %%, directives p f h H P d s n i U G m y Y l with optional '-' flag and width 0-40) rendered for every entry of a tree with all file types, links to file/dir/fifo/dangling, setuid/setgid/sticky modes, foreign owners, hard links and multi-byte names, under 19 starting-point spellings (r, ./r, r/, ., ./, absolute, absolute/, sub-directory, link to directory, link/, link to file, dangling link, file, several roots, r//, inner //) and -P/-H/-L. Quick ~3200 formats / ~50k (format, entry) renderings, 180 (directive, mode, flag, width) cells.",
        note="(The former finding percent-H-root-with-trailing-slash is repaired; its signature is still computed, so a recurrence is reported as a fresh violation.) Not judged: leading zeros of %m, \\NNN above 177, width on non-ASCII values beyond 'padded to the width in characters or in bytes' (the statement does not name the unit), %Y under -H/-L and for dangling links, %l for links the follow mode resolves, %h with // or directly below /, %f/%h of dot components. Round 7: a tmpfs mounted below the starting point in every other worker (%i; needs mount permission, noted otherwise); values with a newline followed by >1 kB on real stdout. Round 9: widths spelled with leading zeros (fill of a right-justified field: blanks or zeros).",
        ref="DESIGN.md section 4 C16"),
    "C18": dict(
        technique="runtime monitoring: per-starting-point reference walk (paths formed textually from the starting point as spelled) compared with the -print0 output, stderr and exit status of the real binary; operands vs -files0-from equivalence as an oracle-free relation",
        level="exploration",
        text="Lists of 0-5 starting points over 42 spellings (d ./d d/ d// d/. x/../d absolute .//d ../a . ./ .. ../, links, files, dangling links, names with blanks, multi-byte names, a lone '-', missing names, duplicates, nested ones) given as operands, as no operand, and as NUL-separated lists from a file and from stdin (with/without final NUL, with empty names, with names starting with '-', '!' '(' or containing a newline). -sorted runs are compared as exact sequences, the others as per-starting-point multisets in the order given; equivalent operand/-files0-from pairs must give identical output and exit status.",
        note="Exit status after an empty -files0-from name is not judged (statement: diagnosed and skipped); valid UTF-8 names. Round 7: -files0-from lists of 1-3 MiB (thorough: up to 16 MiB) from a file and from stdin. Round 8: runs with an unusable starting point repeated with -quit after the action.",
        ref="DESIGN.md section 4 C18"),
    "C19": dict(
        technique="runtime monitoring: scripted recorder outcomes, exit status and number of invocations started vs the documented function; bounded-exhaustive over outcome classes",
        level="exploration",
        text="Exhaustive over the four outcome classes (0, 1..125, 255, signal) for every sequence length <= 5 (quick, 1364 sequences) / 7 (thorough, 21844), random sequences to length 12, missing / non-executable command, usage and input errors.",
        note="Child statuses 126..254 not judged. Round 8: -x with -L/-n and a group whose later argument does not fit -s. Round 9: -I followed by -L 1 with an unterminated quote.",
        ref="DESIGN.md section 4 C19"),
    "C20": dict(
        technique="runtime monitoring: recorder argv per invocation vs textual substitution model; option-order matrix for -I/-n/-L",
        level="exploration",
        text="Random line sets and initial-argument templates with 0-3 occurrences of R, six replacement strings in five spellings, empty input, -I with -n 1, and all orderings of all subsets of {-I,-n,-L} (mode of the last option judged with C04's batching model).",
        note="Lines free of quotes, backslashes and leading blanks (statement's restriction); trailing blanks and bytes that are not valid UTF-8 are judged. Round 7: -I runs under a -s that is 1-8 bytes above what the largest command line needs. Round 8: -x together with a just-fitting -s. Round 9: -I together with -0/--null (one run per NUL-terminated item).",
        ref="DESIGN.md section 4 C20"),
}

PENDING = {}


def main():
    props = [json.loads(l) for l in open(os.path.join(VERIF, "properties.jsonl"))]
    hooks_commits = []
    try:
        out = subprocess.run(["git", "-C", "/repo", "log", "--format=%h %s"], capture_output=True, text=True).stdout
        hooks_commits = [l.split()[0] for l in out.splitlines() if l.split(" ", 1)[1].startswith("verif hook")]
    except Exception:
        pass
    checks = []
    na = []
    for p in props:
        pid = p["id"]
        c = CHECKS.get(pid)
        if not c:
            na.append({"property_id": pid, "reason": PENDING.get(pid, "check not built yet in this round (design in DESIGN.md section 4); runtime monitoring applies and the check will be registered once it is silent on the unchanged tree")})
            continue
        checks.append({
            "property_id": pid,
            "quick_cmd": "./check %s --tier quick" % pid,
            "thorough_cmd": "./check %s --tier thorough" % pid,
            "evidence_file": "/verif/evidence/%s.json" % pid,
            "replay_cmd_template": "./check %s --replay {path}" % pid,
            "engine": "monitor",
            "level_claimed": {"category": c["level"], "text": c["text"], "design_ref": c["ref"]},
            "level_note": c["note"],
            "technique": c["technique"],
        })
    m = {
        "version": 1,
        "setup_cmd": "./check --setup",
        "hooks": {
            "guard": "cargo feature verif_hooks",
            "enable": "cargo build --release --offline --features verif_hooks (done by ./check from /repo's working tree into /verif/.build)",
            "baseline_off_cmd": "cd /repo && cargo test --workspace --no-fail-fast --offline",
            "source_commits": hooks_commits,
            "add_only": True,
        },
        "engines": [{
            "name": "monitor",
            "path": "/verif/check",
            "serves_properties": [c["property_id"] for c in checks],
            "kind_free_text": "runtime monitoring: Python oracles (lib/) over executions of the real code recorded by the in-process Rust harness (harness/: vh, rec), the release binaries and strace",
        }],
        "checks": checks,
        "not_applicable": na,
        "notes": "Exit codes: 0 held on everything observed, 1 with VIOLATION line(s), 2 inconclusive (never a VIOLATION line). Known findings: /verif/known_findings.json.",
    }
    with open(os.path.join(VERIF, "MANIFEST.json"), "w") as f:
        json.dump(m, f, indent=1)
        f.write("\n")
    try:
        import jsonschema
        jsonschema.validate(m, json.load(open("/root/.vp/MANIFEST.schema.json")))
        print("MANIFEST.json valid: %d checks, %d not_applicable" % (len(checks), len(na)))
    except ImportError:
        print("jsonschema not available; wrote MANIFEST.json")


if __name__ == "__main__":
    main()
