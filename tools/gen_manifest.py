#!/usr/bin/env python3
"""Regenerate /verif/MANIFEST.json from the table below (single source of truth for check registration)."""
import json
import os
import subprocess

VERIF = os.path.dirname(os.path.dirname(os.path.abspath(__file__)))

CHECKS = {
    "C01": dict(
        technique="runtime monitoring: reference-model oracle over recorded action outputs (in-process find_main + binary), random stratified expression workload",
        level="exploration",
        text="Every execution of the real find_main/binary on a generated expression and tree is compared byte-for-byte (stdout, -fprint* files, recorder log of -exec) with an independent reference evaluation of the same token list; quick ~25k expressions / 14k distinct operator shapes, thorough ~600k. Held means: no observed execution deviated.",
        note="Trusts lib/refeval.py + lib/refwalk.py (self-checked against a hand-derived table each run) and glibc fnmatch for simple -name patterns; trees on tmpfs, follow mode -P only; expression depth <= 7.",
        ref="DESIGN.md section 4 C01"),
}

PENDING = {}


def main():
    props = [json.loads(l) for l in open(os.path.join(VERIF, "properties.jsonl"))]
    hooks_commits = []
    try:
        out = subprocess.run(["git", "-C", "/repo", "log", "--format=%h %s"], capture_output=True, text=True).stdout
        hooks_commits = [l.split()[0] for l in out.splitlines() if l.split(" ", 1)[1].startswith("verif hook")]
    except Exception:
        pass
    checks = []
    na = []
    for p in props:
        pid = p["id"]
        c = CHECKS.get(pid)
        if not c:
            na.append({"property_id": pid, "reason": PENDING.get(pid, "check not built yet in this round (design in DESIGN.md section 4); runtime monitoring applies and the check will be registered once it is silent on the unchanged tree")})
            continue
        checks.append({
            "property_id": pid,
            "quick_cmd": "./check %s --tier quick" % pid,
            "thorough_cmd": "./check %s --tier thorough" % pid,
            "evidence_file": "/verif/evidence/%s.json" % pid,
            "replay_cmd_template": "./check %s --replay {path}" % pid,
            "engine": "monitor",
            "level_claimed": {"category": c["level"], "text": c["text"], "design_ref": c["ref"]},
            "level_note": c["note"],
            "technique": c["technique"],
        })
    m = {
        "version": 1,
        "setup_cmd": "./check --setup",
        "hooks": {
            "guard": "cargo feature verif_hooks",
            "enable": "cargo build --release --offline --features verif_hooks (done by ./check from /repo's working tree into /verif/.build)",
            "baseline_off_cmd": "cd /repo && cargo test --workspace --no-fail-fast --offline",
            "source_commits": hooks_commits,
            "add_only": True,
        },
        "engines": [{
            "name": "monitor",
            "path": "/verif/check",
            "serves_properties": [c["property_id"] for c in checks],
            "kind_free_text": "runtime monitoring: Python oracles (lib/) over executions of the real code recorded by the in-process Rust harness (harness/: vh, rec), the release binaries and strace",
        }],
        "checks": checks,
        "not_applicable": na,
        "notes": "Exit codes: 0 held on everything observed, 1 with VIOLATION line(s), 2 inconclusive (never a VIOLATION line). Known findings: /verif/known_findings.json.",
    }
    with open(os.path.join(VERIF, "MANIFEST.json"), "w") as f:
        json.dump(m, f, indent=1)
        f.write("\n")
    try:
        import jsonschema
        jsonschema.validate(m, json.load(open("/root/.vp/MANIFEST.schema.json")))
        print("MANIFEST.json valid: %d checks, %d not_applicable" % (len(checks), len(na)))
    except ImportError:
        print("jsonschema not available; wrote MANIFEST.json")


if __name__ == "__main__":
    main()
