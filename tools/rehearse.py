#!/usr/bin/env python3
"""Confirm that monitors fire on broken copies of the repository.

  tools/rehearse.py --mutant ID[,ID...] | --all | --patch FILE [-R]   [--props C01,C02] [--tier quick] [-j N] [-v]

Each mutant is applied to a scratch copy of /repo's tracked working tree under /tmp (never to /repo), the
listed properties' checks are run with VERIF_REPO pointing at the copy, and the copy plus its build output are
removed afterwards. A mutant is 'caught' by a check iff the check exits 1 and prints a VIOLATION line."""
import argparse
import hashlib
import importlib.util
import json
import os
import shutil
import subprocess
import sys
import tempfile
import concurrent.futures

V = os.path.dirname(os.path.dirname(os.path.abspath(__file__)))


def load_mutants():
    spec = importlib.util.spec_from_file_location("mutants", os.path.join(V, "mutants", "mutants.py"))
    m = importlib.util.module_from_spec(spec)
    spec.loader.exec_module(m)
    return m.MUTANTS


def make_copy():
    w = tempfile.mkdtemp(prefix="vr-", dir="/tmp")
    repo = os.path.join(w, "repo")
    os.makedirs(repo)
    files = subprocess.run(["git", "-C", "/repo", "ls-files", "-z"], capture_output=True, check=True).stdout.split(b"\0")
    for f in files:
        if not f:
            continue
        f = f.decode()
        src = os.path.join("/repo", f)
        dst = os.path.join(repo, f)
        os.makedirs(os.path.dirname(dst), exist_ok=True)
        if os.path.islink(src):
            os.symlink(os.readlink(src), dst)
        elif os.path.exists(src):
            shutil.copy2(src, dst)
    return w, repo


def apply_edits(repo, edits):
    for e in edits:
        p = os.path.join(repo, e["file"])
        s = open(p).read()
        n = s.count(e["old"])
        if n != e.get("count", 1):
            raise RuntimeError("stale mutant: %s: pattern occurs %d times in %s" % (e.get("why", ""), n, e["file"]))
        s = s.replace(e["old"], e["new"])
        open(p, "w").write(s)


def run_one(name, edits, patch, reverse, props, tier, verbose, unit_tests=False):
    w, repo = make_copy()
    key = "r" + hashlib.sha1(repo.encode()).hexdigest()[:10]
    bdir = os.path.join(V, ".build", key)
    res = {"mutant": name, "results": {}}
    try:
        if patch:
            subprocess.run(["git", "init", "-q", "."], cwd=repo, check=True)
            r = subprocess.run(["git", "apply", "--whitespace=nowarn"] + (["-R"] if reverse else []) + [patch], cwd=repo,
                               capture_output=True, text=True)
            if r.returncode:
                # /repo may have moved on since the patch was taken: retry with fuzz
                r2 = subprocess.run(["patch", "-p1", "-F3", "--no-backup-if-mismatch"] + (["-R"] if reverse else []) + ["-i", patch], cwd=repo,
                                    capture_output=True, text=True)
                if r2.returncode:
                    raise RuntimeError("patch does not apply: " + r.stderr[-300:] + r2.stdout[-300:])
        else:
            apply_edits(repo, edits)
        os.makedirs(bdir, exist_ok=True)
        base_t = os.path.join(V, ".build", "repo", "target")
        if os.path.isdir(base_t) and not os.path.exists(os.path.join(bdir, "target")):
            subprocess.run(["cp", "-a", base_t, os.path.join(bdir, "target")])
        env = dict(os.environ, VERIF_REPO=repo, VERIF_EVIDENCE_DIR=os.path.join(w, "evidence"),
                   VERIF_REPLAY_DIR=os.path.join(w, "replays"))
        if unit_tests:
            t = subprocess.run(["cargo", "test", "--workspace", "--no-fail-fast", "--offline"], cwd=repo, capture_output=True,
                               text=True, env=dict(os.environ, CARGO_TARGET_DIR=os.path.join(w, "ttarget")))
            fails = sorted(l.split()[1] for l in t.stdout.splitlines() if l.startswith("test ") and l.endswith("FAILED"))
            res["unit_test_failures"] = fails
        for prop in props:
            r = subprocess.run([os.path.join(V, "check"), prop, "--tier", tier], cwd=V, env=env, capture_output=True, text=True)
            nv = sum(1 for l in r.stdout.splitlines() if l.startswith("VIOLATION"))
            kinds = [l for l in r.stdout.splitlines() if l.startswith("violations:") or l.startswith("INCONCLUSIVE")]
            caught = r.returncode == 1 and nv >= 1
            res["results"][prop] = {"exit": r.returncode, "violation_lines": nv, "caught": caught, "summary": " ".join(kinds)[:300]}
            if verbose:
                lines = r.stdout.splitlines()
                idx = [i for i, l in enumerate(lines) if l.startswith("VIOLATION")][:verbose]
                for i in idx:
                    print("\n".join(lines[i:i + 3])[:1500])
                if r.returncode not in (0, 1):
                    print(r.stdout[-2000:], r.stderr[-1000:])
    except Exception as e:
        res["error"] = str(e)
    finally:
        shutil.rmtree(w, ignore_errors=True)
        shutil.rmtree(bdir, ignore_errors=True)
    return res


def main():
    ap = argparse.ArgumentParser()
    ap.add_argument("--mutant")
    ap.add_argument("--all", action="store_true")
    ap.add_argument("--patch")
    ap.add_argument("-R", action="store_true")
    ap.add_argument("--props")
    ap.add_argument("--tier", default="quick")
    ap.add_argument("-j", type=int, default=2)
    ap.add_argument("-v", type=int, default=0)
    ap.add_argument("--unit-tests", action="store_true")
    a = ap.parse_args()
    jobs = []
    if a.patch:
        jobs.append((os.path.basename(a.patch), None, os.path.abspath(a.patch), a.R, a.props.split(",")))
    else:
        M = load_mutants()
        ids = list(M) if a.all else a.mutant.split(",")
        for i in ids:
            m = M[i]
            jobs.append((i, m["edits"], None, False, a.props.split(",") if a.props else m["props"]))
    bad = 0
    with concurrent.futures.ThreadPoolExecutor(max_workers=a.j) as ex:
        futs = [ex.submit(run_one, n, e, p, r, props, a.tier, a.v, a.unit_tests) for (n, e, p, r, props) in jobs]
        for f in concurrent.futures.as_completed(futs):
            r = f.result()
            if "error" in r:
                print("%-40s ERROR %s" % (r["mutant"], r["error"]))
                bad += 1
                continue
            for prop, x in r["results"].items():
                print("%-40s %s %s exit=%d %s" % (r["mutant"], prop, "CAUGHT" if x["caught"] else "MISSED", x["exit"], x["summary"][:160]))
                if not x["caught"]:
                    bad += 1
            if "unit_test_failures" in r:
                print("%-40s unit test failures: %s" % (r["mutant"], r["unit_test_failures"]))
            sys.stdout.flush()
    return 1 if bad else 0


if __name__ == "__main__":
    sys.exit(main())
