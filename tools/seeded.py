#!/usr/bin/env python3
"""Confirm an independently written breaking change and run the checks against it.

  tools/seeded.py confirm SRC_DIR ID PROP [--needs TEXT]      SRC_DIR holds patch.diff, demo.sh, notes.md
      1. scratch copy of /repo's tracked tree under /tmp: build, demo must exit 0
      2. apply patch.diff: build, repository test-suite must match the baseline (282 pass, 2 root-only failures), demo must exit 1
      3. on success copy patch.diff + demo.sh + notes.md to /verif/seeded/ID/ and write meta.json
  tools/seeded.py run ID [--props C01,C02] [--tier quick|thorough]
      applies /verif/seeded/ID/patch.diff to a scratch copy and runs the checks (VERIF_REPO=copy); records the outcome in meta.json
Scratch copies and their build output are removed afterwards."""
import argparse
import hashlib
import json
import os
import shutil
import subprocess
import sys
import time

V = os.path.dirname(os.path.dirname(os.path.abspath(__file__)))
sys.path.insert(0, os.path.join(V, "tools"))
import rehearse  # noqa: E402

EXPECTED_FAIL = ["find::matchers::tests::get_or_create_file_test", "find::tests::test_no_permission_file_error"]


def sh(cmd, cwd=None, env=None, timeout=3600):
    p = subprocess.run(cmd, cwd=cwd, env=env, capture_output=True, text=True, timeout=timeout)
    return p.returncode, p.stdout + p.stderr


def confirm(src, sid, prop, needs):
    w, repo = rehearse.make_copy()
    out = {"id": sid, "property": prop, "needs": needs, "confirmed": False, "steps": []}
    env = dict(os.environ, CARGO_NET_OFFLINE="true", CARGO_TARGET_DIR=os.path.join(w, "target"))
    try:
        # seed the build cache
        if os.path.isdir("/repo/target"):
            subprocess.run(["cp", "-a", "/repo/target", os.path.join(w, "target")])
        rc, o = sh(["cargo", "build", "--offline"], cwd=repo, env=env)
        out["steps"].append({"step": "build unchanged", "rc": rc})
        if rc:
            out["error"] = o[-1500:]
            return out
        demo = os.path.join(src, "demo.sh")
        rc0, o0 = sh(["bash", demo, os.path.join(w, "target", "debug")], cwd=w, timeout=600)
        out["steps"].append({"step": "demo on unchanged tree", "rc": rc0, "tail": o0[-400:]})
        subprocess.run(["git", "init", "-q", "."], cwd=repo)
        subprocess.run("git add -A && git -c user.name=v -c user.email=v@v commit -qm base", shell=True, cwd=repo)
        rc, o = sh(["git", "apply", "--whitespace=nowarn", os.path.join(src, "patch.diff")], cwd=repo)
        rebased = False
        if rc:
            # /repo has moved on since the sub-agent's worktree was taken: retry with fuzz and keep the re-based diff
            rc, o2 = sh(["patch", "-p1", "-F3", "--no-backup-if-mismatch", "-i", os.path.join(src, "patch.diff")], cwd=repo)
            o += o2
            rebased = rc == 0
        out["steps"].append({"step": "apply patch", "rc": rc, "rebased_with_fuzz": rebased, "tail": o[-300:]})
        if rc:
            return out
        new_diff = subprocess.run(["git", "diff"], cwd=repo, capture_output=True, text=True).stdout
        rc, o = sh(["cargo", "build", "--offline"], cwd=repo, env=env)
        out["steps"].append({"step": "build changed", "rc": rc, "tail": o[-600:] if rc else ""})
        if rc:
            return out
        rc, o = sh(["cargo", "test", "--workspace", "--no-fail-fast", "--offline"], cwd=repo, env=env)
        fails = sorted(l.split()[1] for l in o.splitlines() if l.startswith("test ") and l.endswith("FAILED"))
        passed = sum(int(l.split(" passed")[0].split()[-1]) for l in o.splitlines() if l.startswith("test result"))
        out["steps"].append({"step": "test-suite on changed tree", "passed": passed, "failed": fails})
        rc1, o1 = sh(["bash", demo, os.path.join(w, "target", "debug")], cwd=w, timeout=600)
        out["steps"].append({"step": "demo on changed tree", "rc": rc1, "tail": o1[-400:]})
        out["confirmed"] = (rc0 == 0 and rc1 == 1 and fails == EXPECTED_FAIL and passed == 282)
        if out["confirmed"]:
            dst = os.path.join(V, "seeded", sid)
            os.makedirs(dst, exist_ok=True)
            for f in ("demo.sh", "notes.md"):
                if os.path.exists(os.path.join(src, f)):
                    shutil.copy(os.path.join(src, f), os.path.join(dst, f))
            with open(os.path.join(dst, "patch.diff"), "w") as f:
                f.write(new_diff)         # identical to the sub-agent's patch unless it had to be re-based onto /repo's HEAD
            meta = {"id": sid, "breaks_property": prop, "needs_to_manifest": needs, "origin": "independent sub-agent given only the property text and a scratch worktree",
                    "confirmed": {"when": time.strftime("%Y-%m-%d %H:%M"), "what_i_ran": [
                        "scratch copy of /repo tracked tree; cargo build --offline; bash demo.sh <target/debug> -> exit 0",
                        "git apply patch.diff; cargo build --offline; cargo test --workspace --no-fail-fast --offline -> 282 passed, only the 2 root-only failures",
                        "bash demo.sh <target/debug> -> exit 1"]},
                    "checks": {}}
            with open(os.path.join(dst, "meta.json"), "w") as f:
                json.dump(meta, f, indent=1)
                f.write("\n")
    finally:
        shutil.rmtree(w, ignore_errors=True)
    return out


def run(sid, props, tier):
    dst = os.path.join(V, "seeded", sid)
    meta = json.load(open(os.path.join(dst, "meta.json")))
    props = props or [meta["breaks_property"]]
    r = rehearse.run_one(sid, None, os.path.join(dst, "patch.diff"), False, props, tier, 2)
    if "error" in r:
        print("ERROR", r["error"])
        return 2
    for p, x in r["results"].items():
        meta["checks"].setdefault(p, {})[tier] = {"caught": x["caught"], "exit": x["exit"], "summary": x["summary"][:200], "when": time.strftime("%Y-%m-%d %H:%M")}
        print("%-10s %s tier=%s %s exit=%d %s" % (sid, p, tier, "CAUGHT" if x["caught"] else "MISSED", x["exit"], x["summary"][:150]))
    with open(os.path.join(dst, "meta.json"), "w") as f:
        json.dump(meta, f, indent=1)
        f.write("\n")
    return 0


def main():
    ap = argparse.ArgumentParser()
    sub = ap.add_subparsers(dest="cmd")
    c = sub.add_parser("confirm")
    c.add_argument("src")
    c.add_argument("id")
    c.add_argument("prop")
    c.add_argument("--needs", default="")
    r = sub.add_parser("run")
    r.add_argument("id")
    r.add_argument("--props")
    r.add_argument("--tier", default="quick")
    a = ap.parse_args()
    if a.cmd == "confirm":
        o = confirm(os.path.abspath(a.src), a.id, a.prop, a.needs)
        print(json.dumps(o, indent=1)[:3000])
        return 0 if o["confirmed"] else 1
    return run(a.id, a.props.split(",") if a.props else None, a.tier)


if __name__ == "__main__":
    sys.exit(main())
