//! rec — recorder command run *by* find/xargs under test.
//!
//! Appends one line per invocation to $VERIF_REC_LOG (single O_APPEND write):
//!   full    : seq \t hex(cwd) \t hex(argv1) \t hex(argv2) ...
//!   compact : seq \t hex(cwd) \t C \t argc \t bytes \t crc32-chain \t maxlen     (VERIF_REC_MODE=compact)
//! where crc32-chain folds, for every argument in order, its 4-byte little-endian length and its
//! bytes into a running zlib CRC-32 (so order, splits and merges all change it).
//!
//! Exit behaviour:
//!   VERIF_REC_SCRIPT = comma separated outcomes indexed by invocation number (seq); outcomes:
//!       N (exit status N) | kN (kill self with signal N). Beyond the list: exit 0.
//!   VERIF_REC_FN = mod:M  -> exit status = crc32-chain(argv[1..]) % M
//!   VERIF_REC_FN = outcome6 -> crc32-chain % 6: 0,1 exit 0; 2 exit 1; 3 exit 3; 4 SIGKILL; 5 SIGTERM
//!   VERIF_REC_FN = outcome8 -> crc32-chain % 8: 0,1 exit 0; 2 exit 1; 3 exit 128; 4 SIGKILL; 5 exit 255; 6 exit 127; 7 exit 129
//!   VERIF_REC_DRAIN = 1     -> read standard input to its end before exiting (a command that consumes its stdin)
//! The invocation number is kept in "$VERIF_REC_LOG.n" (callers run children one at a time).

use std::ffi::OsString;
use std::fs::OpenOptions;
use std::io::Write;
use std::os::unix::ffi::{OsStrExt, OsStringExt};

fn hex(b: &[u8]) -> String {
    const D: &[u8; 16] = b"0123456789abcdef";
    let mut s = String::with_capacity(b.len() * 2);
    for &x in b {
        s.push(D[(x >> 4) as usize] as char);
        s.push(D[(x & 15) as usize] as char);
    }
    s
}

fn crc_table() -> [u32; 256] {
    let mut t = [0u32; 256];
    for i in 0..256u32 {
        let mut c = i;
        for _ in 0..8 {
            c = if c & 1 != 0 { 0xEDB8_8320 ^ (c >> 1) } else { c >> 1 };
        }
        t[i as usize] = c;
    }
    t
}

fn crc_update(t: &[u32; 256], crc: u32, data: &[u8]) -> u32 {
    let mut c = !crc;
    for &b in data {
        c = t[((c ^ b as u32) & 0xff) as usize] ^ (c >> 8);
    }
    !c
}

fn main() {
    let args: Vec<OsString> = std::env::args_os().skip(1).collect();
    let log = std::env::var_os("VERIF_REC_LOG");
    let t = crc_table();
    let mut chain = 0u32;
    let mut bytes = 0usize;
    let mut maxlen = 0usize;
    for a in &args {
        let b = a.as_bytes();
        chain = crc_update(&t, chain, &(b.len() as u32).to_le_bytes());
        chain = crc_update(&t, chain, b);
        bytes += b.len() + 1;
        maxlen = maxlen.max(b.len());
    }
    let mut seq: u64 = 0;
    if let Some(log) = &log {
        let mut nfile = log.clone().into_vec();
        nfile.extend_from_slice(b".n");
        let nfile = OsString::from_vec(nfile);
        seq = std::fs::read_to_string(&nfile)
            .ok()
            .and_then(|s| s.trim().parse().ok())
            .unwrap_or(0);
        let _ = std::fs::write(&nfile, format!("{}\n", seq + 1));
        let cwd = std::env::current_dir()
            .map(|p| p.into_os_string().into_vec())
            .unwrap_or_default();
        let compact = std::env::var("VERIF_REC_MODE").map(|m| m == "compact").unwrap_or(false);
        let mut line = format!("{seq}\t{}", hex(&cwd));
        if compact {
            line.push_str(&format!("\tC\t{}\t{bytes}\t{chain}\t{maxlen}", args.len()));
        } else {
            for a in &args {
                line.push('\t');
                line.push_str(&hex(a.as_bytes()));
            }
        }
        line.push('\n');
        if let Ok(mut f) = OpenOptions::new().append(true).create(true).open(log) {
            let _ = f.write_all(line.as_bytes());
        }
    }
    if std::env::var_os("VERIF_REC_DRAIN").is_some() {
        let mut sink = Vec::new();
        let _ = std::io::Read::read_to_end(&mut std::io::stdin(), &mut sink);
    }
    if let Ok(f) = std::env::var("VERIF_REC_FN") {
        if let Some(m) = f.strip_prefix("mod:") {
            let m: u32 = m.parse().unwrap_or(2);
            std::process::exit((chain % m) as i32);
        }
        // outcome8 = chain % 8: 0,1 -> exit 0; 2 -> 1; 3 -> 128; 4 -> SIGKILL; 5 -> 255; 6 -> 127; 7 -> 129
        if f == "outcome8" {
            match chain % 8 {
                0 | 1 => std::process::exit(0),
                2 => std::process::exit(1),
                3 => std::process::exit(128),
                5 => std::process::exit(255),
                6 => std::process::exit(127),
                7 => std::process::exit(129),
                _ => {
                    unsafe {
                        libc::signal(libc::SIGKILL, libc::SIG_DFL);
                        libc::kill(libc::getpid(), libc::SIGKILL);
                    }
                    std::thread::sleep(std::time::Duration::from_secs(5));
                    std::process::exit(99);
                }
            }
        }
        // outcome = chain % 6: 0,1 -> exit 0; 2 -> exit 1; 3 -> exit 3; 4 -> killed by SIGKILL; 5 -> killed by SIGTERM
        if f == "outcome6" {
            match chain % 6 {
                0 | 1 => std::process::exit(0),
                2 => std::process::exit(1),
                3 => std::process::exit(3),
                k => {
                    let sig = if k == 4 { libc::SIGKILL } else { libc::SIGTERM };
                    unsafe {
                        libc::signal(sig, libc::SIG_DFL);
                        libc::kill(libc::getpid(), sig);
                    }
                    std::thread::sleep(std::time::Duration::from_secs(5));
                    std::process::exit(99);
                }
            }
        }
    }
    if let Ok(script) = std::env::var("VERIF_REC_SCRIPT") {
        let items: Vec<&str> = script.split(',').collect();
        if let Some(o) = items.get(seq as usize) {
            if let Some(sig) = o.strip_prefix('k') {
                let sig: i32 = sig.parse().unwrap_or(9);
                unsafe {
                    libc::signal(sig, libc::SIG_DFL);
                    libc::kill(libc::getpid(), sig);
                }
                std::thread::sleep(std::time::Duration::from_secs(5));
                std::process::exit(99);
            } else if let Ok(code) = o.parse::<i32>() {
                std::process::exit(code);
            }
        }
    }
    std::process::exit(0);
}
