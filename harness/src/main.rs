//! vh — in-process driver for the real findutils library code.
//!
//! It is a *recorder*, not a judge: it reads cases from a file, runs the real code, and appends one
//! event-log line per case to an output file. All verdicts are computed by the Python oracles.
//!
//!   vh find   CASES OUT [--uid N]     cases: id \t now_ns \t hex(arg)...          (argv[0] included)
//!   vh match  CASES OUT               cases: id \t P|H|L \t depth \t nargs \t hex(arg)... \t hex(subject)...
//!   vh split  CASES OUT               cases: id \t delim(-1|0..255) \t chunk,chunk,...   (chunk = hex or "!")
//!   vh splitx OUT ALPHABET MAXLEN SHARD NSHARDS MODE   exhaustive chunking-independence monitor
//!
//! Fields are tab separated, byte strings hex encoded. fd 0 is /dev/null, fd 1 and fd 2 are
//! redirected to memfds for every case so that anything the library writes there is observable.

use std::cell::RefCell;
use std::fs::File;
use std::io::{BufRead, BufReader, BufWriter, Write};
use std::os::unix::io::{AsRawFd, RawFd};
use std::panic::{self, AssertUnwindSafe};
use std::sync::Mutex;
use std::time::{Duration, Instant, SystemTime, UNIX_EPOCH};

use findutils::find::matchers::{build_top_level_matcher, Follow, Matcher, MatcherIO, WalkEntry};
use findutils::find::{find_main, Config, Dependencies};

static PANIC_MSG: Mutex<Option<String>> = Mutex::new(None);

fn hex(b: &[u8]) -> String {
    const D: &[u8; 16] = b"0123456789abcdef";
    let mut s = String::with_capacity(b.len() * 2);
    for &x in b {
        s.push(D[(x >> 4) as usize] as char);
        s.push(D[(x & 15) as usize] as char);
    }
    s
}

fn unhex(s: &str) -> Vec<u8> {
    let b = s.as_bytes();
    assert!(b.len() % 2 == 0, "odd hex field");
    let v = |c: u8| -> u8 {
        match c {
            b'0'..=b'9' => c - b'0',
            b'a'..=b'f' => c - b'a' + 10,
            b'A'..=b'F' => c - b'A' + 10,
            _ => panic!("bad hex digit"),
        }
    };
    (0..b.len() / 2)
        .map(|i| (v(b[2 * i]) << 4) | v(b[2 * i + 1]))
        .collect()
}

struct Deps {
    out: RefCell<Vec<u8>>,
    now: SystemTime,
}

impl Dependencies for Deps {
    fn get_output(&self) -> &RefCell<dyn Write> {
        &self.out
    }
    fn now(&self) -> SystemTime {
        self.now
    }
}

/// A memfd standing in for fd 1 or fd 2.
struct Capture {
    mem: RawFd,
    target: RawFd,
}

impl Capture {
    fn new(target: RawFd, name: &str) -> Self {
        let cname = std::ffi::CString::new(name).unwrap();
        let mem = unsafe { libc::memfd_create(cname.as_ptr(), 0) };
        assert!(mem >= 0, "memfd_create failed");
        let r = unsafe { libc::dup2(mem, target) };
        assert!(r >= 0, "dup2 failed");
        Self { mem, target }
    }

    /// Number of bytes written since the last reset.
    fn pending(&self) -> usize {
        let _ = std::io::stderr().flush();
        let len = unsafe { libc::lseek(self.mem, 0, libc::SEEK_END) };
        if len < 0 {
            0
        } else {
            len as usize
        }
    }

    /// Return what was written since the last call and reset.
    fn take(&self, cap: usize) -> (Vec<u8>, usize) {
        let len = unsafe { libc::lseek(self.mem, 0, libc::SEEK_END) };
        let len = if len < 0 { 0 } else { len as usize };
        let n = len.min(cap);
        let mut buf = vec![0u8; n];
        if n > 0 {
            let r = unsafe { libc::pread(self.mem, buf.as_mut_ptr() as *mut libc::c_void, n, 0) };
            if r < 0 {
                buf.clear();
            } else {
                buf.truncate(r as usize);
            }
        }
        unsafe {
            libc::ftruncate(self.mem, 0);
            libc::lseek(self.mem, 0, libc::SEEK_SET);
            // In case something closed or replaced the target.
            libc::dup2(self.mem, self.target);
        }
        (buf, len)
    }
}

fn install_panic_hook() {
    panic::set_hook(Box::new(|info| {
        let loc = info
            .location()
            .map(|l| format!("{}:{}", l.file(), l.line()))
            .unwrap_or_else(|| "?".into());
        let msg = if let Some(s) = info.payload().downcast_ref::<&str>() {
            (*s).to_string()
        } else if let Some(s) = info.payload().downcast_ref::<String>() {
            s.clone()
        } else {
            "<non-string payload>".to_string()
        };
        let mut g = PANIC_MSG.lock().unwrap_or_else(|e| e.into_inner());
        if g.is_none() {
            *g = Some(format!("{loc}: {msg}"));
        }
    }));
}

fn take_panic() -> String {
    PANIC_MSG
        .lock()
        .unwrap_or_else(|e| e.into_inner())
        .take()
        .unwrap_or_default()
}

fn setup_stdio() -> (Capture, Capture) {
    unsafe {
        let null = libc::open(b"/dev/null\0".as_ptr() as *const libc::c_char, libc::O_RDONLY);
        assert!(null >= 0);
        libc::dup2(null, 0);
        libc::close(null);
    }
    (Capture::new(1, "vh-fd1"), Capture::new(2, "vh-fd2"))
}

fn drop_privileges(uid: u32) {
    unsafe {
        assert!(libc::setgroups(0, std::ptr::null()) == 0, "setgroups");
        assert!(libc::setresgid(uid, uid, uid) == 0, "setresgid");
        assert!(libc::setresuid(uid, uid, uid) == 0, "setresuid");
    }
}

const CAP: usize = 1 << 20;

fn mode_find(cases: &str, out: &str, rest: &[String]) {
    let mut uid: Option<u32> = None;
    let mut i = 0;
    while i < rest.len() {
        if rest[i] == "--uid" {
            uid = Some(rest[i + 1].parse().unwrap());
            i += 2;
        } else {
            panic!("unknown option {}", rest[i]);
        }
    }
    let rd = BufReader::new(File::open(cases).expect("open cases"));
    let mut w = BufWriter::new(File::create(out).expect("create out"));
    if let Some(u) = uid {
        drop_privileges(u);
    }
    let (c1, c2) = setup_stdio();
    install_panic_hook();
    for line in rd.lines() {
        let line = line.unwrap();
        if line.is_empty() {
            continue;
        }
        let f: Vec<&str> = line.split('\t').collect();
        let id = f[0];
        let now_ns: u128 = f[1].parse().unwrap();
        let args_b: Vec<Vec<u8>> = f[2..].iter().map(|h| unhex(h)).collect();
        let args_s: Option<Vec<&str>> = args_b
            .iter()
            .map(|b| std::str::from_utf8(b).ok())
            .collect();
        let Some(args) = args_s else {
            writeln!(w, "{id}\tSKIP\t\t\t\t\t0\t0").unwrap();
            w.flush().unwrap();
            continue;
        };
        let now = if now_ns == 0 {
            SystemTime::now()
        } else {
            UNIX_EPOCH
                + Duration::new((now_ns / 1_000_000_000) as u64, (now_ns % 1_000_000_000) as u32)
        };
        let deps = Deps {
            out: RefCell::new(Vec::new()),
            now,
        };
        let t0 = Instant::now();
        let r = panic::catch_unwind(AssertUnwindSafe(|| find_main(&args, &deps)));
        let el = t0.elapsed().as_micros();
        let _ = std::io::stdout().flush();
        let _ = std::io::stderr().flush();
        let (fd1, _) = c1.take(CAP);
        let (fd2, fd2len) = c2.take(CAP);
        // After a panic inside a RefCell borrow the cell may still be flagged as borrowed.
        let outb = deps
            .out
            .try_borrow()
            .map(|b| b.clone())
            .unwrap_or_default();
        match r {
            Ok(code) => {
                let _ = take_panic();
                writeln!(
                    w,
                    "{id}\t{code}\t\t{}\t{}\t{}\t{el}\t{fd2len}",
                    hex(&outb),
                    hex(&fd1),
                    hex(&fd2)
                )
                .unwrap();
            }
            Err(_) => {
                let msg = take_panic();
                writeln!(
                    w,
                    "{id}\tPANIC\t{}\t{}\t{}\t{}\t{el}\t{fd2len}",
                    hex(msg.as_bytes()),
                    hex(&outb),
                    hex(&fd1),
                    hex(&fd2)
                )
                .unwrap();
            }
        }
        w.flush().unwrap();
    }
}

fn mode_match(cases: &str, out: &str) {
    let rd = BufReader::new(File::open(cases).expect("open cases"));
    let mut w = BufWriter::new(File::create(out).expect("create out"));
    let (c1, c2) = setup_stdio();
    install_panic_hook();
    let mut n = 0u64;
    for line in rd.lines() {
        let line = line.unwrap();
        if line.is_empty() {
            continue;
        }
        let f: Vec<&str> = line.split('\t').collect();
        let id = f[0];
        let follow = match f[1] {
            "P" => Follow::Never,
            "H" => Follow::Roots,
            "L" => Follow::Always,
            _ => panic!("bad follow"),
        };
        let depth: usize = f[2].parse().unwrap();
        let nargs: usize = f[3].parse().unwrap();
        let args_b: Vec<Vec<u8>> = f[4..4 + nargs].iter().map(|h| unhex(h)).collect();
        let subj_b: Vec<Vec<u8>> = f[4 + nargs..].iter().map(|h| unhex(h)).collect();
        let args: Vec<&str> = args_b
            .iter()
            .map(|b| std::str::from_utf8(b).expect("utf8 args"))
            .collect();
        let deps = Deps {
            out: RefCell::new(Vec::new()),
            now: SystemTime::now(),
        };
        let built = panic::catch_unwind(AssertUnwindSafe(|| {
            let mut config = Config::default();
            build_top_level_matcher(&args, &mut config).map_err(|e| e.to_string())
        }));
        match built {
            Err(_) => {
                let msg = take_panic();
                writeln!(w, "{id}\tpanic\t{}\t", hex(msg.as_bytes())).unwrap();
            }
            Ok(Err(e)) => {
                writeln!(w, "{id}\terr\t{}\t", hex(e.as_bytes())).unwrap();
            }
            Ok(Ok(matcher)) => {
                c2.take(0);
                let mut bits = String::with_capacity(subj_b.len());
                let mut pmsg = String::new();
                for s in &subj_b {
                    let p = std::str::from_utf8(s).expect("utf8 subject");
                    let r = panic::catch_unwind(AssertUnwindSafe(|| {
                        let entry = WalkEntry::new(p, depth, follow);
                        let mut io = MatcherIO::new(&deps);
                        matcher.matches(&entry, &mut io)
                    }));
                    // 'E' = the test wrote a diagnostic while evaluating this subject (and answered false)
                    let wrote = c2.pending() > 0;
                    if wrote {
                        c2.take(0);
                    }
                    match r {
                        Ok(true) => bits.push('1'),
                        Ok(false) if wrote => bits.push('E'),
                        Ok(false) => bits.push('0'),
                        Err(_) => {
                            bits.push('P');
                            let m = take_panic();
                            if pmsg.is_empty() {
                                pmsg = m;
                            }
                        }
                    }
                    if let Ok(mut o) = deps.out.try_borrow_mut() {
                        o.clear();
                    }
                }
                writeln!(w, "{id}\tok\t{}\t{bits}", hex(pmsg.as_bytes())).unwrap();
            }
        }
        n += 1;
        if n % 256 == 0 {
            c1.take(0);
            c2.take(0);
            w.flush().unwrap();
        }
    }
    w.flush().unwrap();
}

type SplitResult = Result<Vec<(Vec<u8>, bool)>, String>;

fn fmt_split(r: &SplitResult) -> String {
    match r {
        Ok(toks) => {
            let mut s = String::from("ok\t");
            for (i, (t, h)) in toks.iter().enumerate() {
                if i > 0 {
                    s.push(',');
                }
                s.push_str(&hex(t));
                s.push(':');
                s.push(if *h { 'H' } else { 'S' });
            }
            s
        }
        Err(e) => format!("err\t{}", hex(e.as_bytes())),
    }
}

fn run_split(delim: Option<u8>, chunks: &[Option<&[u8]>]) -> Result<SplitResult, String> {
    let r = panic::catch_unwind(AssertUnwindSafe(|| findutils::xargs::verif::split(delim, chunks)));
    r.map_err(|_| take_panic())
}

fn mode_split(cases: &str, out: &str) {
    let rd = BufReader::new(File::open(cases).expect("open cases"));
    let mut w = BufWriter::new(File::create(out).expect("create out"));
    let (_c1, _c2) = setup_stdio();
    install_panic_hook();
    for line in rd.lines() {
        let line = line.unwrap();
        if line.is_empty() {
            continue;
        }
        let f: Vec<&str> = line.split('\t').collect();
        let id = f[0];
        let d: i32 = f[1].parse().unwrap();
        let delim = if d < 0 { None } else { Some(d as u8) };
        let owned: Vec<Option<Vec<u8>>> = if f.len() < 3 || f[2].is_empty() {
            vec![]
        } else {
            f[2].split(',')
                .map(|c| if c == "!" { None } else { Some(unhex(c)) })
                .collect()
        };
        let chunks: Vec<Option<&[u8]>> = owned.iter().map(|c| c.as_deref()).collect();
        match run_split(delim, &chunks) {
            Ok(r) => writeln!(w, "{id}\t{}", fmt_split(&r)).unwrap(),
            Err(p) => writeln!(w, "{id}\tpanic\t{}", hex(p.as_bytes())).unwrap(),
        }
    }
    w.flush().unwrap();
}

/// Exhaustive chunking-independence monitor. Enumerates every input over ALPHABET (a comma
/// separated list of hex symbols, each possibly several bytes) of length 0..=MAXLEN symbols that
/// falls into this shard, runs the real reader on the unchunked input (result logged for the
/// Python oracle) and on a family of chunkings; any chunking whose result differs from the
/// unchunked one is logged as `DIFF`.
///   MODE = delimiter (-1 default reader, else byte)
fn mode_splitx(out: &str, rest: &[String]) {
    let alphabet: Vec<Vec<u8>> = rest[0].split(',').map(unhex).collect();
    let maxlen: usize = rest[1].parse().unwrap();
    let shard: u64 = rest[2].parse().unwrap();
    let nshards: u64 = rest[3].parse().unwrap();
    let d: i32 = rest[4].parse().unwrap();
    let allcuts_max: usize = rest[5].parse().unwrap();
    let delim = if d < 0 { None } else { Some(d as u8) };
    let mut w = BufWriter::new(File::create(out).expect("create out"));
    let (_c1, _c2) = setup_stdio();
    install_panic_hook();
    let k = alphabet.len() as u64;
    let mut inputs = 0u64;
    let mut pairs = 0u64;
    let mut diffs = 0u64;
    let mut cut_in_quote = 0u64;
    let mut cut_after_bs = 0u64;
    let mut cut_in_mb = 0u64;
    let mut with_intr = 0u64;
    let mut idx_global = 0u64;
    for len in 0..=maxlen {
        let total = k.pow(len as u32);
        for n in 0..total {
            idx_global += 1;
            if idx_global % nshards != shard {
                continue;
            }
            // decode n into symbols
            let mut syms = Vec::with_capacity(len);
            let mut m = n;
            for _ in 0..len {
                syms.push((m % k) as usize);
                m /= k;
            }
            let mut input: Vec<u8> = vec![];
            let mut sym_start = vec![]; // byte offsets where symbols start
            for &s in &syms {
                sym_start.push(input.len());
                input.extend_from_slice(&alphabet[s]);
            }
            inputs += 1;
            let whole = match run_split(delim, &[Some(&input[..])]) {
                Ok(r) => r,
                Err(p) => {
                    writeln!(w, "PANIC\t{}\t{}", hex(&input), hex(p.as_bytes())).unwrap();
                    continue;
                }
            };
            writeln!(w, "IN\t{}\t{}", hex(&input), fmt_split(&whole)).unwrap();
            pairs += 1;
            let nb = input.len();
            if nb < 2 {
                // still exercise an interrupted read
                let ch = [None, Some(&input[..])];
                if let Ok(r) = run_split(delim, &ch) {
                    pairs += 1;
                    with_intr += 1;
                    if r != whole {
                        diffs += 1;
                        writeln!(w, "DIFF\t{}\t!,{}\t{}", hex(&input), hex(&input), fmt_split(&r))
                            .unwrap();
                    }
                }
                continue;
            }
            // Quote / escape state before each byte offset (for the coverage counters only).
            let mut in_quote = vec![false; nb + 1];
            let mut after_bs = vec![false; nb + 1];
            {
                let mut q: Option<u8> = None;
                let mut esc = false;
                for (i, &c) in input.iter().enumerate() {
                    in_quote[i] = q.is_some();
                    after_bs[i] = esc;
                    if esc {
                        esc = false;
                    } else if let Some(qq) = q {
                        if c == qq {
                            q = None;
                        }
                    } else if c == b'\'' || c == b'"' {
                        q = Some(c);
                    } else if c == b'\\' {
                        esc = true;
                    }
                }
            }
            let mut cutsets: Vec<u64> = vec![];
            if nb <= allcuts_max {
                for mask in 1..(1u64 << (nb - 1)) {
                    cutsets.push(mask);
                }
            } else {
                for c in 0..(nb - 1) {
                    cutsets.push(1u64 << c);
                }
                cutsets.push((1u64 << (nb - 1)) - 1); // one-byte reads
                // a few two-cut sets
                for c in 0..(nb - 2) {
                    cutsets.push((1u64 << c) | (1u64 << (c + 1)));
                }
            }
            for (ci, &mask) in cutsets.iter().enumerate() {
                let mut chunks: Vec<Option<&[u8]>> = vec![];
                let mut start = 0;
                let intr = ci % 5 == 0;
                // every seventh cut set: runs of two or three interrupted reads, also before the
                // first byte and before end of input
                let intr_run = ci % 7 == 3;
                if intr_run {
                    chunks.push(None);
                    chunks.push(None);
                }
                for c in 0..(nb - 1) {
                    if mask & (1u64 << c) != 0 {
                        chunks.push(Some(&input[start..=c]));
                        if intr {
                            chunks.push(None);
                        }
                        if intr_run {
                            chunks.push(None);
                            chunks.push(None);
                            if c % 2 == 0 {
                                chunks.push(None);
                            }
                        }
                        start = c + 1;
                        if delim.is_none() {
                            if in_quote[c + 1] {
                                cut_in_quote += 1;
                            }
                            if after_bs[c + 1] {
                                cut_after_bs += 1;
                            }
                        }
                        if !sym_start.contains(&(c + 1)) {
                            cut_in_mb += 1;
                        }
                    }
                }
                chunks.push(Some(&input[start..]));
                if intr_run {
                    chunks.push(None);
                    chunks.push(None);
                    chunks.push(None);
                }
                if intr || intr_run {
                    with_intr += 1;
                }
                pairs += 1;
                match run_split(delim, &chunks) {
                    Ok(r) => {
                        if r != whole {
                            diffs += 1;
                            let cs: Vec<String> = chunks
                                .iter()
                                .map(|c| c.map(hex).unwrap_or_else(|| "!".into()))
                                .collect();
                            writeln!(w, "DIFF\t{}\t{}\t{}", hex(&input), cs.join(","), fmt_split(&r))
                                .unwrap();
                        }
                    }
                    Err(p) => {
                        writeln!(w, "PANIC\t{}\t{}", hex(&input), hex(p.as_bytes())).unwrap();
                    }
                }
            }
        }
    }
    writeln!(
        w,
        "STAT\t{inputs}\t{pairs}\t{diffs}\t{cut_in_quote}\t{cut_after_bs}\t{cut_in_mb}\t{with_intr}"
    )
    .unwrap();
    w.flush().unwrap();
}

fn main() {
    let a: Vec<String> = std::env::args().collect();
    if a.len() < 2 {
        eprintln!("usage: vh find|match|split|splitx ...");
        std::process::exit(2);
    }
    match a[1].as_str() {
        "find" => mode_find(&a[2], &a[3], &a[4..]),
        "match" => mode_match(&a[2], &a[3]),
        "split" => mode_split(&a[2], &a[3]),
        "splitx" => mode_splitx(&a[2], &a[3..]),
        _ => {
            eprintln!("unknown mode");
            std::process::exit(2);
        }
    }
    // Touch AsRawFd so the import stays used on all paths.
    let _ = std::io::stdout().as_raw_fd();
}
