"""Trees far deeper than the number of files the process may hold open (RLIMIT_NOFILE): used by C02 (every level is visited),
C03 (order holds at every level, also without -sorted), C07 (every path goes through the pipe) and C10 (-delete removes
the whole chain). The walk needs a bounded number of descriptors whatever the depth; a walk that keeps one directory handle
per level fails with EMFILE below the limit and loses everything beneath."""
import os
import resource
import subprocess

import common
import xref
from common import Stats

NAMES = ["d", "a b", "-x", "é", "q'", "{}", "z"]


def build_chain(sb, depth, rng):
    """r/<n1>/<n2>/... depth levels, two files per level. -> list of relative paths (bytes-safe str), directories first per level."""
    paths = ["r"]
    cur = "r"
    os.makedirs(os.path.join(sb, "r"))
    for lvl in range(depth):
        for f in ("f", "~g"):
            p = cur + "/" + f
            fd = os.open(os.path.join(sb, p), os.O_CREAT | os.O_WRONLY, 0o644)
            os.close(fd)
            paths.append(p)
        nm = rng.choice(NAMES)
        cur = cur + "/" + nm
        os.mkdir(os.path.join(sb, cur))
        paths.append(cur)
    return paths


def limit(nofile):
    def pre():
        resource.setrlimit(resource.RLIMIT_NOFILE, (nofile, nofile))
    return pre


def deep_worker(job):
    what, k, nruns, seed = job
    st = Stats()
    rng = common.rng_for(seed, "deep-" + what, k)
    base = common.mkscratch("deep%s%d" % (what[:1], k))
    try:
        for t in range(nruns):
            sb = os.path.join(base, "t%d" % t)
            os.makedirs(sb)
            nofile = rng.choice([24, 32, 40, 64])
            depth = rng.choice([nofile + 10, 2 * nofile, 150])
            depth = min(depth, 150)
            paths = build_chain(sb, depth, rng)
            want = [p.encode() for p in paths]
            st.inc("evaluations")
            st.inc("runs_over_a_tree_deeper_than_the_open_files_limit")
            st.add("distinct", (what, nofile, depth))
            rp = {"generator": "lib/deep.py", "what": what, "seed": seed, "k": k, "t": t, "nofile": nofile, "depth": depth}
            env = common.clean_env()
            if what in ("visit", "order"):
                flag = rng.choice([[], ["-L"], ["-H"]])
                opts = rng.choice([[], ["-depth"], ["-sorted"], ["-sorted", "-depth"], ["-mindepth", str(depth - 5)]])
                rc, out, err, to = common.run_cmd([common.FIND] + flag + ["r"] + opts + ["-print0"], cwd=sb, env=env, timeout=120, preexec_fn=limit(nofile))
                got = out.split(b"\0")[:-1]
                exp = want
                if "-mindepth" in opts:
                    exp = [p for p in want if p.count(b"/") >= depth - 5]
                problems = []
                if sorted(got) != sorted(exp):
                    problems.append("%d of %d entries visited (first missing: %r)" % (len(got), len(exp), sorted(set(exp) - set(got))[:2]))
                if rc != 0 or to:
                    problems.append("exit status %r, stderr %r" % (rc, err[-200:]))
                if what == "order" and not problems:
                    pos = {p: i for i, p in enumerate(got)}
                    for p in got:
                        par = p.rsplit(b"/", 1)[0] if b"/" in p else None
                        if par is not None and par in pos:
                            before = pos[par] < pos[p]
                            if before == ("-depth" in opts):
                                problems.append("%r evaluated %s its parent" % (p[-40:], "after" if "-depth" in opts else "before"))
                                break
                if problems:
                    st.violate("visit-set-differs" if what == "visit" else "sequence-differs", None,
                               {"args": ["find"] + flag + ["r"] + opts + ["-print0"], "open_files_limit": nofile, "depth": depth, "problems": problems}, rp)
            elif what == "pipe":
                log = os.path.join(sb, "rec.log")
                p1 = subprocess.Popen([common.FIND, "r", "-print0"], cwd=sb, env=env, stdout=subprocess.PIPE, stderr=subprocess.PIPE, preexec_fn=limit(nofile))
                p2 = subprocess.Popen([common.XARGS, "-0", common.REC, "--"], cwd=sb, env=common.clean_env({"VERIF_REC_LOG": log}), stdin=p1.stdout,
                                      stdout=subprocess.PIPE, stderr=subprocess.PIPE)
                p1.stdout.close()
                try:
                    o2, e2 = p2.communicate(timeout=300)
                    e1 = p1.stderr.read()
                    p1.wait(timeout=60)
                except subprocess.TimeoutExpired:
                    p1.kill()
                    p2.kill()
                    st.violate("hang", None, {"root": "r"}, rp)
                    continue
                got = [a for _, argv in xref.read_reclog(log) for a in argv[1:]]
                if sorted(got) != sorted(want) or p1.returncode != 0 or p2.returncode != 0:
                    st.violate("pipe-not-exact", None, {"root": "r", "open_files_limit_of_find": nofile, "depth": depth, "paths": len(want), "delivered": len(got),
                                                        "find_exit": p1.returncode, "xargs_exit": p2.returncode, "find_stderr": e1[-200:]}, rp)
            elif what == "delete":
                rc, out, err, to = common.run_cmd([common.FIND, "r", "-delete"], cwd=sb, env=env, timeout=120, preexec_fn=limit(nofile))
                left = []
                for root_, dirs_, files_ in os.walk(os.path.join(sb)):
                    left += [os.path.join(root_, x) for x in dirs_ + files_]
                if left or rc != 0 or to:
                    st.violate("delete", None, {"args": ["find", "r", "-delete"], "open_files_limit": nofile, "depth": depth,
                                                "problems": ["%d entries left behind, exit status %r, stderr %r" % (len(left), rc, err[-200:])]}, rp)
            common.force_rmtree(sb)
    finally:
        common.force_rmtree(base)
    return st
