"""C19 — xargs exit status is the documented function of its children's outcomes.

Monitor: exit status of the real xargs binary and number of invocations started (recorder log) for scripted outcome
sequences, against the ten-line documented function."""
import itertools
import os

import common
import xref
from common import Stats

CLASSES = {"ok": ["0"], "fail": ["1", "2", "125", "64", "3"], "urgent": ["255"], "signal": ["k9", "k15", "k11", "k6", "k13", "k1", "k2", "k3", "k34", "k40", "k64", "k31"]}


def model(seq):
    """seq of outcome strings -> (exit status, invocations started)"""
    fail = False
    for k, o in enumerate(seq):
        if o.startswith("k"):
            return 125, k + 1
        v = int(o)
        if v == 255:
            return 124, k + 1
        if 1 <= v <= 125:
            fail = True
    return (123 if fail else 0), len(seq)


def cls(o):
    if o.startswith("k"):
        return "signal"
    v = int(o)
    return "ok" if v == 0 else ("urgent" if v == 255 else "fail")


MODES = ["n1", "n1", "n2", "L1", "I", "0n1", "dn1", "n3x"]
# input errors placed after the items of the sequence: the text that follows the last complete item
BAD_TAILS = [b"'", b'"', b"x '", b'y "', b"'open", b'"open two', b"a 'b c\n", b"'\n", b'z "\n']


def shape_input(mode, n, rng):
    """-> (options, initial args, stdin bytes, expected appended arguments per invocation) for n invocations"""
    if mode == "n1":
        return ["-n1"], [], b"".join(b"item%d\n" % i for i in range(n)), [[b"item%d" % i] for i in range(n)]
    if mode == "n2":
        items = [b"it%d" % i for i in range(2 * n - rng.choice([0, 1]))]
        return ["-n", "2"], [], b" ".join(items) + b"\n", [items[i:i + 2] for i in range(0, len(items), 2)]
    if mode == "n3x":
        items = [b"it%d" % i for i in range(3 * n - rng.choice([0, 1, 2]))]
        return ["-x", "-n", "3"], [], b"\n".join(items), [items[i:i + 3] for i in range(0, len(items), 3)]
    if mode == "L1":
        lines = [[b"l%d" % i, b"w%d" % i][:rng.choice([1, 2])] for i in range(n)]
        return ["-L", "1"], [], b"".join(b" ".join(l) + b"\n" for l in lines), lines
    if mode == "I":
        lines = [b"line %d x" % i for i in range(n)]
        return ["-I", "{}"], ["{}"], b"".join(l + b"\n" for l in lines), [[l] for l in lines]
    if mode == "0n1":
        items = [b"nul %d\n" % i for i in range(n)]
        return ["-0", "-n1"], [], b"".join(i + b"\0" for i in items), [[i] for i in items]
    if mode == "dn1":
        items = [b"d%d" % i for i in range(n)]
        return ["-d", ",", "-n", "1"], [], b",".join(items), [[i] for i in items]
    raise ValueError(mode)


def worker(job):
    k, seqs, seed = job
    st = Stats()
    rng = common.rng_for(seed, "C19w", k)
    wd = common.mkscratch("C19w%d" % k)
    try:
        for seq in seqs:
            mode = rng.choice(MODES)
            opts, initial, data, want_args = shape_input(mode, len(seq), rng)
            # one run in six: an input error (unterminated quote) follows the items; xargs' own errors give exit status 1 unless
            # an invocation before it was fatal
            tail = None
            if mode in ("n1", "n2", "L1") and rng.random() < 0.17:
                tail = rng.choice(BAD_TAILS)
                data = data + tail
            if rng.random() < 0.2:
                # options that are accepted and change nothing about the outcome (-P 0 = as many processes as possible)
                opts = rng.choice([["-P", "0"], ["-P", "1"], ["--max-procs=0"], ["-P", "4"], ["-t"], ["--verbose"]]) + opts
                st.inc("runs_with_an_outcome_neutral_option")
            r = xref.run_xargs(wd, opts, initial, data, script=",".join(seq))
            st.inc("evaluations")
            st.inc("mode:" + mode)
            st.add("distinct", (mode, tuple(seq), tail))
            st.inc("child_invocations", len(r.invocations))
            for pos, o in enumerate(seq):
                st.add("class_at_position", (cls(o), min(pos, 6)))
            want_rc, want_n = model(seq)
            got_args = [list(argv) for _, argv in r.invocations]      # the recorder logs its arguments without argv[0]
            ok_args = got_args == want_args[:len(got_args)]
            detail = {"mode": mode, "options": opts, "stdin": data[:300], "outcomes": list(seq), "observed_exit": r.rc,
                      "observed_invocations": len(r.invocations), "stderr": r.err[-200:]}
            rp = {"options": opts, "initial": initial, "stdin": data, "outcomes": list(seq)}
            if tail is not None:
                st.inc("runs_with_input_error_after_the_items")
                # how many invocations start before the reader meets the quote depends on read-ahead (0..n); the statement fixes
                # the status: a fatal child outcome if one was reached, else 1
                started = len(r.invocations)
                rc_prefix, n_prefix = model(seq[:started])
                fatal = rc_prefix in (124, 125)
                want = rc_prefix if fatal else 1
                if r.rc != want or r.timed_out or not ok_args or (fatal and started != n_prefix) or (not fatal and not r.err.strip()):
                    st.violate("exit-status", None, dict(detail, expected_exit=want, input_error=tail), rp)
                continue
            if r.rc != want_rc or len(r.invocations) != want_n or not ok_args or r.timed_out:
                st.violate("exit-status", None, dict(detail, expected_exit=want_rc, expected_invocations=want_n,
                                                     observed_args=got_args[:4]), rp)
            if st.c["evaluations"] % 97 == 1:
                st.sample({"mode": mode, "outcomes": list(seq), "exit": r.rc, "invocations": len(r.invocations)})
    finally:
        common.force_rmtree(wd)
    return st


def empty_input_cases(ctx):
    """No arguments at all: without -r the command runs once and its outcome counts like any other; with -r (or -I) nothing runs."""
    st = ctx.stats
    wd = ctx.scratch()
    inputs = [b"", b"\n", b"  \n\t\n", b" ", b"\n\n\n"]
    for o in ["0", "1", "2", "3", "64", "125", "255", "k9", "k15", "k6"]:
        for data in inputs:
            for opts in ([], ["-n1"], ["-n", "3"], ["-L", "2"], ["-x"], ["-s", "4000"], ["-0"], ["-d", ","], ["-t"]):
                if opts in (["-0"], ["-d", ","]) and data != b"":
                    continue                     # with a delimiter a blank is an argument
                for r_opt in ([], ["-r"], ["--no-run-if-empty"]):
                    r = xref.run_xargs(wd, opts + r_opt, ["init"], data, script=o)
                    st.inc("evaluations")
                    st.inc("empty_input_runs")
                    st.add("distinct", ("empty", o, data, tuple(opts), tuple(r_opt)))
                    if r_opt:
                        want_rc, want_n = 0, 0
                    else:
                        want_rc, want_n = model([o])
                    st.inc("empty_input_outcome:" + cls(o) + ("(-r)" if r_opt else ""))
                    argv_ok = all(list(argv) == [b"init"] for _, argv in r.invocations)
                    if r.rc != want_rc or len(r.invocations) != want_n or not argv_ok or r.timed_out:
                        st.violate("exit-status", None, {"case": "no arguments on input", "options": opts + r_opt, "stdin": data,
                                                         "outcome": o, "expected_exit": want_rc, "observed_exit": r.rc,
                                                         "expected_invocations": want_n, "observed_invocations": len(r.invocations),
                                                         "stderr": r.err[-200:]},
                                   {"options": opts + r_opt, "stdin": data, "outcomes": [o]})
        # -I: empty input runs nothing
        r = xref.run_xargs(wd, ["-I", "{}"], ["{}"], b"", script=o)
        st.inc("evaluations")
        if r.rc != 0 or r.invocations:
            st.violate("exit-status", None, {"case": "-I with empty input", "observed_exit": r.rc, "invocations": len(r.invocations)},
                       {"options": ["-I", "{}"], "stdin": b""})


def special_cases(ctx):
    st = ctx.stats
    wd = ctx.scratch()
    noexec = os.path.join(wd, "noexec")
    with open(noexec, "w") as f:
        f.write("#!/bin/sh\nexit 0\n")
    os.chmod(noexec, 0o644)
    adir = os.path.join(wd, "adir")
    os.mkdir(adir)
    afile = os.path.join(wd, "afile")
    open(afile, "w").close()
    loop = os.path.join(wd, "loop")
    os.symlink("loop", loop)
    dang = os.path.join(wd, "dangling-cmd")
    os.symlink("nowhere", dang)
    sub_noexec = os.path.join(adir, "inner")
    with open(sub_noexec, "w") as f:
        f.write("#!/bin/sh\nexit 0\n")
    os.chmod(sub_noexec, 0o600)
    cases = [
        # the command exists but cannot be executed for a reason other than a missing execute bit: still "cannot be run" (126)
        ("command path through a regular file (ENOTDIR)", [], [afile + "/x"], b"a\n", 126, 0),
        ("command is a symbolic link loop (ELOOP)", [], [loop], b"a\n", 126, 0),
        ("not-executable mode 600", ["-n1"], [sub_noexec], b"a\nb\n", 126, 0),
        ("dangling symbolic link as command (ENOENT)", [], [dang], b"a\n", 127, 0),
        ("missing command below an existing directory", [], [adir + "/nope"], b"a\n", 127, 0),
        ("missing-command-abs", [], ["/nonexistent/cmd"], b"a b\n", 127, 0),
        ("missing-command-path", [], ["no-such-command-xyz"], b"a\n", 127, 0),
        ("missing-command-n1-stops", ["-n1"], ["/nonexistent/cmd"], b"a\nb\nc\n", 127, 0),
        ("not-executable", [], [noexec], b"a\n", 126, 0),
        ("directory-as-command", [], [adir], b"a\n", 126, 0),
        ("usage -n 0", ["-n", "0"], None, b"a\n", 1, 0),
        ("usage -n x", ["-n", "x"], None, b"a\n", 1, 0),
        ("usage -s x", ["-s", "x"], None, b"a\n", 1, 0),
        ("usage -s 0", ["-s", "0"], None, b"a\n", 1, 0),
        ("usage -L -1", ["-L", "-1"], None, b"a\n", 1, 0),
        ("usage -L 0", ["-L", "0"], None, b"a\n", 1, 0),
        ("usage -d xx", ["-d", "xx"], None, b"a\n", 1, 0),
        ("usage -d with one multi-byte character", ["-d", "é"], None, "aébéc\n".encode(), 1, 0),
        ("usage --delimiter= with one multi-byte character", ["--delimiter=€"], None, "a€b\n".encode(), 1, 0),
        ("usage -d with an empty operand", ["-d", ""], None, b"a\n", 1, 0),
        ("usage unknown option", ["--no-such-option"], None, b"a\n", 1, 0),
        ("unterminated single quote", [], None, b"a 'b c\n", 1, None),
        ("opening single quote is the last byte", [], None, b"a b '", 1, 0),
        ("opening double quote is the last byte", [], None, b'a b "', 1, 0),
        ("a lone double quote", [], None, b'"', 1, 0),
        ("a lone single quote, -r", ["-r"], None, b"'", 1, 0),
        ("opening quote then newline at the end", [], None, b"a '\n", 1, 0),
        ("opening quote last byte, -L1", ["-L", "1"], None, b'a\n"', 1, None),
        ("unterminated double quote", ["-n1"], None, b'ok\n"never closed\n', 1, None),
        ("argument of exactly 131072 bytes (32 pages: one too many with its terminator)", [], None, b"a\n" + b"B" * 131072 + b"\n", 1, None),
        ("argument of exactly 131072 bytes, -n1 after a failing one", ["-n1"], None, b"a\n" + b"B" * 131072 + b"\nz\n", 1, 1),
        ("argument of exactly 131072 bytes, -0", ["-0"], None, b"B" * 131072 + b"\0", 1, 0),
        ("argument too long for -s", ["-s", str(len(common.REC) + 1 + 6)], None, b"abcdefghijklmnop\n", 1, 0),
        # -x: a group (-L lines / -n arguments) that does not fit the size limit is an error, not a reason to split it
        ("-x -L 1: a later argument of the line does not fit -s", ["-x", "-L", "1", "-s", str(len(common.REC) + 1 + 6)], None, b"a\nab cd efg\nz\n", 1, 1),
        ("-x -L 2: the second line does not fit -s", ["-x", "-L", "2", "-s", str(len(common.REC) + 1 + 6)], None, b"ab\ncd efg\nz\n", 1, 0),
        ("-x --max-lines=1: a later argument does not fit -s", ["-x", "--max-lines=1", "-s", str(len(common.REC) + 1 + 6)], None, b"ab cd efg\n", 1, 0),
        ("-x -n 3: the third argument does not fit -s", ["-x", "-n", "3", "-s", str(len(common.REC) + 1 + 6)], None, b"ab cd efg zz\n", 1, 0),
        # (round 9) -L given after -I decides the mode (line mode, whatever N is): quotes are processed, an unterminated one is an input error
        ("-I R then -L 1: unterminated quote", ["-I", "R", "-L", "1"], None, b"a 'b c\n", 1, None),
        ("-I R then --max-lines=1: unterminated quote", ["-I", "R", "--max-lines=1"], None, b'ok\n"never closed\n', 1, None),
        ("-I R then -L 01 -n1: unterminated quote", ["-I", "R", "-L", "01", "-n1"], None, b"x 'y\n", 1, None),
        ("argument too long for -s after ok ones", ["-s", str(len(common.REC) + 1 + 6)], None, b"ab\ncd\nabcdefghijklmnop\nzz\n", 1, None),
    ]
    for name, opts, cmd, data, want, want_n in cases:
        r = xref.run_xargs(wd, opts, [], data, cmd=cmd)
        st.inc("evaluations")
        st.inc("special_cases")
        st.add("distinct", name)
        bad = r.rc != want or (want_n is not None and len(r.invocations) != want_n) or not r.err.strip()
        if bad:
            st.violate("exit-status-special", None, {"case": name, "opts": opts, "expected_exit": want, "observed_exit": r.rc,
                                                     "invocations": len(r.invocations), "stderr": r.err[-200:]}, {"case": name})


def run(ctx):
    K = ctx.scale(5, 8)
    ctx.rule = ("xargs over k invocations (batched by -n1, -n2, -x -n3, -L1, -I, -0 -n1 or -d , -n1; the arguments of every invocation checked) "
                "with the recorder scripted per invocation: exhaustive over the four outcome classes "
                "(exit 0, exit 1..125, exit 255, death by signal) for every length <= %d, concrete values varied; random sequences "
                "up to length 12; an unterminated quote after the items in one run in six (status 1 unless a fatal outcome came first); input "
                "with no arguments at all x every outcome x -r or not; plus missing / non-executable command and usage/input errors; "
                "distinct = (mode, outcome sequence, input error)" % K)
    ctx.assumptions = ["child statuses 126..254 not judged (statement covers 1..125 and 255)"]
    assert model(["0", "3", "0"]) == (123, 3) and model(["1", "255", "0"]) == (124, 2) and model(["k9"]) == (125, 1) and model([]) == (0, 0)
    rng = common.rng_for(ctx.seed, "C19")
    seqs = []
    for k in range(1, K + 1):
        for combo in itertools.product(["ok", "fail", "urgent", "signal"], repeat=k):
            seqs.append(tuple(rng.choice(CLASSES[c]) for c in combo))
    ctx.exhaustive = True
    ctx.extra_cov["exhaustive_bound"] = "all class sequences of length 1..%d (%d sequences)" % (K, len(seqs))
    for _ in range(ctx.scale(150, 40000)):
        n = rng.randint(5, 12)
        seqs.append(tuple(rng.choice(CLASSES[rng.choice(["ok", "ok", "fail", "fail", "ok", "urgent", "signal"])]) for _ in range(n)))
    rng.shuffle(seqs)
    nw = common.NCPU
    ctx.pmap(worker, [(k, seqs[k::nw], ctx.seed) for k in range(nw)])
    special_cases(ctx)
    empty_input_cases(ctx)
    ctx.require("special_cases", 10)
    ctx.require("empty_input_outcome:fail", 10)
    ctx.require("runs_with_input_error_after_the_items", 10)
    for m in set(MODES):
        ctx.require("mode:" + m, 5)
