"""C19 — xargs exit status is the documented function of its children's outcomes.

Monitor: exit status of the real xargs binary and number of invocations started (recorder log) for scripted outcome
sequences, against the ten-line documented function."""
import itertools
import os

import common
import xref
from common import Stats

CLASSES = {"ok": ["0"], "fail": ["1", "2", "125", "64", "3"], "urgent": ["255"], "signal": ["k9", "k15", "k11", "k6"]}


def model(seq):
    """seq of outcome strings -> (exit status, invocations started)"""
    fail = False
    for k, o in enumerate(seq):
        if o.startswith("k"):
            return 125, k + 1
        v = int(o)
        if v == 255:
            return 124, k + 1
        if 1 <= v <= 125:
            fail = True
    return (123 if fail else 0), len(seq)


def cls(o):
    if o.startswith("k"):
        return "signal"
    v = int(o)
    return "ok" if v == 0 else ("urgent" if v == 255 else "fail")


def worker(job):
    k, seqs, seed = job
    st = Stats()
    wd = common.mkscratch("C19w%d" % k)
    try:
        for seq in seqs:
            data = b"".join(b"item%d\n" % i for i in range(len(seq)))
            r = xref.run_xargs(wd, ["-n1"], [], data, script=",".join(seq))
            st.inc("evaluations")
            st.add("distinct", tuple(seq))
            st.inc("child_invocations", len(r.invocations))
            for pos, o in enumerate(seq):
                st.add("class_at_position", (cls(o), min(pos, 6)))
            want_rc, want_n = model(seq)
            args_seen = [argv[-1] for _, argv in r.invocations]
            ok_args = args_seen == [b"item%d" % i for i in range(len(args_seen))]
            if r.rc != want_rc or len(r.invocations) != want_n or not ok_args or r.timed_out:
                st.violate("exit-status", None, {"outcomes": list(seq), "expected_exit": want_rc, "observed_exit": r.rc,
                                                 "expected_invocations": want_n, "observed_invocations": len(r.invocations),
                                                 "stderr": r.err[-200:]}, {"outcomes": list(seq)})
            if want_rc != 0 and want_rc != 123 and not r.err.strip():
                pass
            if st.c["evaluations"] % 97 == 1:
                st.sample({"outcomes": list(seq), "exit": r.rc, "invocations": len(r.invocations)})
    finally:
        common.force_rmtree(wd)
    return st


def special_cases(ctx):
    st = ctx.stats
    wd = ctx.scratch()
    noexec = os.path.join(wd, "noexec")
    with open(noexec, "w") as f:
        f.write("#!/bin/sh\nexit 0\n")
    os.chmod(noexec, 0o644)
    adir = os.path.join(wd, "adir")
    os.mkdir(adir)
    afile = os.path.join(wd, "afile")
    open(afile, "w").close()
    loop = os.path.join(wd, "loop")
    os.symlink("loop", loop)
    dang = os.path.join(wd, "dangling-cmd")
    os.symlink("nowhere", dang)
    sub_noexec = os.path.join(adir, "inner")
    with open(sub_noexec, "w") as f:
        f.write("#!/bin/sh\nexit 0\n")
    os.chmod(sub_noexec, 0o600)
    cases = [
        # the command exists but cannot be executed for a reason other than a missing execute bit: still "cannot be run" (126)
        ("command path through a regular file (ENOTDIR)", [], [afile + "/x"], b"a\n", 126, 0),
        ("command is a symbolic link loop (ELOOP)", [], [loop], b"a\n", 126, 0),
        ("not-executable mode 600", ["-n1"], [sub_noexec], b"a\nb\n", 126, 0),
        ("dangling symbolic link as command (ENOENT)", [], [dang], b"a\n", 127, 0),
        ("missing command below an existing directory", [], [adir + "/nope"], b"a\n", 127, 0),
        ("missing-command-abs", [], ["/nonexistent/cmd"], b"a b\n", 127, 0),
        ("missing-command-path", [], ["no-such-command-xyz"], b"a\n", 127, 0),
        ("missing-command-n1-stops", ["-n1"], ["/nonexistent/cmd"], b"a\nb\nc\n", 127, 0),
        ("not-executable", [], [noexec], b"a\n", 126, 0),
        ("directory-as-command", [], [adir], b"a\n", 126, 0),
        ("usage -n 0", ["-n", "0"], None, b"a\n", 1, 0),
        ("usage -n x", ["-n", "x"], None, b"a\n", 1, 0),
        ("usage -s x", ["-s", "x"], None, b"a\n", 1, 0),
        ("usage -s 0", ["-s", "0"], None, b"a\n", 1, 0),
        ("usage -L -1", ["-L", "-1"], None, b"a\n", 1, 0),
        ("usage -L 0", ["-L", "0"], None, b"a\n", 1, 0),
        ("usage -d xx", ["-d", "xx"], None, b"a\n", 1, 0),
        ("usage unknown option", ["--no-such-option"], None, b"a\n", 1, 0),
        ("unterminated single quote", [], None, b"a 'b c\n", 1, None),
        ("unterminated double quote", ["-n1"], None, b'ok\n"never closed\n', 1, None),
        ("argument too long for -s", ["-s", str(len(common.REC) + 1 + 6)], None, b"abcdefghijklmnop\n", 1, 0),
        ("argument too long for -s after ok ones", ["-s", str(len(common.REC) + 1 + 6)], None, b"ab\ncd\nabcdefghijklmnop\nzz\n", 1, None),
    ]
    for name, opts, cmd, data, want, want_n in cases:
        r = xref.run_xargs(wd, opts, [], data, cmd=cmd)
        st.inc("evaluations")
        st.inc("special_cases")
        st.add("distinct", name)
        bad = r.rc != want or (want_n is not None and len(r.invocations) != want_n) or not r.err.strip()
        if bad:
            st.violate("exit-status-special", None, {"case": name, "opts": opts, "expected_exit": want, "observed_exit": r.rc,
                                                     "invocations": len(r.invocations), "stderr": r.err[-200:]}, {"case": name})


def run(ctx):
    K = ctx.scale(5, 7)
    ctx.rule = ("xargs -n1 over k items with the recorder scripted per invocation: exhaustive over the four outcome classes "
                "(exit 0, exit 1..125, exit 255, death by signal) for every length <= %d, concrete values varied; random sequences "
                "up to length 12; plus missing / non-executable command and usage/input errors; distinct = outcome sequence" % K)
    ctx.assumptions = ["child statuses 126..254 not judged (statement covers 1..125 and 255)"]
    assert model(["0", "3", "0"]) == (123, 3) and model(["1", "255", "0"]) == (124, 2) and model(["k9"]) == (125, 1) and model([]) == (0, 0)
    rng = common.rng_for(ctx.seed, "C19")
    seqs = []
    for k in range(1, K + 1):
        for combo in itertools.product(["ok", "fail", "urgent", "signal"], repeat=k):
            seqs.append(tuple(rng.choice(CLASSES[c]) for c in combo))
    ctx.exhaustive = True
    ctx.extra_cov["exhaustive_bound"] = "all class sequences of length 1..%d (%d sequences)" % (K, len(seqs))
    for _ in range(ctx.scale(150, 2500)):
        n = rng.randint(5, 12)
        seqs.append(tuple(rng.choice(CLASSES[rng.choice(["ok", "ok", "fail", "fail", "ok", "urgent", "signal"])]) for _ in range(n)))
    rng.shuffle(seqs)
    nw = common.NCPU
    ctx.pmap(worker, [(k, seqs[k::nw], ctx.seed) for k in range(nw)])
    special_cases(ctx)
    ctx.require("special_cases", 10)
