"""C18 — starting points: processed in the order given, each spelled as given, isolated on error; -files0-from equivalent.

Monitor: -print0 output, stderr and exit status of the real find binary for generated lists of starting points (every
spelling of the same directory, files, links, missing names, duplicates, nested) given as operands and as
NUL-separated lists (file and stdin), compared with the concatenation of independent per-root reference walks whose
paths are formed textually from the starting point as spelled."""
import os

import common
import refwalk
import treegen
from common import Stats
from treegen import Node


def build(sb):
    nodes = [Node("a", "d"), Node("a/f1", "f", size=1), Node("a/sub", "d"), Node("a/sub/g", "f"), Node("a/sub/deep", "d"), Node("a/sub/deep/h", "f"),
             Node("b", "d"), Node("b/x", "f"), Node("inner", "d"), Node("inner/d", "d"), Node("inner/d/f", "f"), Node("inner/d/e", "d"),
             Node("inner/d/e/z", "f"), Node("inner/file", "f", size=3), Node("inner/x", "d"), Node("inner/x/y", "f"), Node("inner/-x", "d"),
             Node("inner/-x/in", "f"), Node("inner/-print", "d"), Node("inner/-print/q", "f"), Node("inner/a\nb", "d"), Node("inner/a\nb/c", "f"),
             Node("inner/ld", "l", target="d"), Node("inner/lf", "l", target="file"), Node("inner/dang", "l", target="nope"),
             Node("inner/sp ace", "d"), Node("inner/sp ace/s", "f"), Node("inner/é", "d"), Node("inner/é/ü", "f"), Node("inner/-", "d"),
             Node("inner/-/dash", "f"), Node("inner/!", "d"), Node("inner/!/bang", "f"), Node("inner/(", "d"), Node("inner/(/paren", "f"),
             Node("inner/,", "f"), Node("inner/ ", "d"), Node("inner/ /sp", "f"), Node("inner/\n", "d"), Node("inner/\n/nl", "f"), Node("inner/\t ", "d"),
             Node("inner/(old)", "d"), Node("inner/(old)/o", "f"), Node("inner/!imp", "d"), Node("inner/!imp/i", "f"), Node("inner/((", "f"),
             Node("inner/,x", "d"), Node("inner/,x/c", "f"), Node("inner/)", "d"), Node("inner/)/cl", "f"), Node("inner/+p", "f")]
    treegen.build(sb, nodes)


# spellings usable as operands (cwd = sb/inner)
DIR_SPELLINGS = ["d", "./d", "d/", "d//", "d/.", "x/../d", "ABS/inner/d", "ABS/inner/d/", ".//d", "d/e", "d/e/", "./d/./e", "../a", "../a/", "../a/sub",
                 "../a/sub/../sub", "../b", ".", "./", "..", "../", "x", "ld", "ld/", "sp ace", "é", "./é/", "-",
                 " ", "\n", "\t ", " /", "(old)", "!imp", "(old)/", ",x", ")", "./(old)"]
FILE_SPELLINGS = ["file", "./file", "lf", "dang", "d/f", "../a/f1", "ABS/inner/file", ",", "x/y", "((", "+p", " /sp", "\n/nl"]
MISSING = ["missing", "./nope/x", "d/missing", "file/x", "../zz"]
ONLY_FILES0 = ["-x", "-print", "a\nb", "-x/", "!", "(", "-x/in", "a\nb/c"]


def expected(sb, cwd, roots, sorted_, mode="P", mind=0, maxd=None):
    """-> (list of per-root expected path lists, n_missing)"""
    w = refwalk.Walk(mode, mind, maxd, False, True, cwd)
    per = []
    for r in roots:
        out = []
        n_err = len(w.errors)
        w.run(r, lambda e: out.append(e.path) and False)
        per.append(out)
    missing = sum(1 for e in w.errors if e[0] == "missing")
    return per, missing, w


def compare(st, per, got, sorted_, ctx_detail, rp, mind=0):
    flat = [p for seg in per for p in seg]
    st.inc("paths_compared", len(flat))
    if sorted_:
        if got != flat:
            # first difference
            i = 0
            while i < min(len(got), len(flat)) and got[i] == flat[i]:
                i += 1
            st.violate("wrong-output", None, dict(ctx_detail, at=i, expected=flat[i:i + 3], observed=got[i:i + 3], n_expected=len(flat),
                                                  n_observed=len(got)), rp)
            return False
        return True
    if len(got) != len(flat):
        st.violate("wrong-output", None, dict(ctx_detail, n_expected=len(flat), n_observed=len(got),
                                              missing=[p for p in flat if p not in got][:3], extra=[p for p in got if p not in flat][:3]), rp)
        return False
    pos = 0
    for ri, seg in enumerate(per):
        g = got[pos:pos + len(seg)]
        pos += len(seg)
        if sorted(g) != sorted(seg):
            st.violate("wrong-output", None, dict(ctx_detail, root_index=ri, expected_segment=seg[:4], observed_segment=g[:4]), rp)
            return False
        if seg and g[0] != seg[0] and mind == 0:
            st.violate("wrong-output", None, dict(ctx_detail, root_index=ri, note="a starting point's segment must begin with the starting point itself",
                                                  expected_first=seg[0], observed_first=g[0]), rp)
            return False
    return True


def worker(job):
    k, nruns, seed = job
    st = Stats()
    rng = common.rng_for(seed, "C18", k)
    base = common.mkscratch("C18w%d" % k)
    sb = os.path.join(base, "sb")
    os.makedirs(sb)
    try:
        build(sb)
        cwd = os.path.join(sb, "inner")
        for run in range(nruns):
            shape = rng.choice(["operands", "operands", "operands", "none", "files0-file", "files0-file", "files0-stdin", "equiv", "equiv"])
            n = rng.choice([1, 1, 2, 2, 3, 4, 5])
            pool = DIR_SPELLINGS * 3 + FILE_SPELLINGS * 2 + MISSING
            roots = [rng.choice(pool).replace("ABS", sb) for _ in range(n)]
            if rng.random() < 0.2 and n >= 2:
                roots[-1] = roots[0]            # duplicate
            sorted_ = rng.random() < 0.6
            # follow mode and depth bounds: neither may change how a starting point is spelled or whether it is diagnosed
            mode = rng.choice(["P", "P", "P", "H", "L", "follow"])
            lead = {"P": rng.choice([[], ["-P"]]), "H": ["-H"], "L": ["-L"], "follow": []}[mode]
            if rng.random() < 0.25:
                lead = lead + ["--"]            # the option terminator changes nothing about the starting points (nor their default)
                st.inc("runs_with_option_terminator")
            mind = rng.choice([0, 0, 0, 1, 2])
            maxd = rng.choice([None, None, None, 0, 1, 2])
            if maxd is not None and mind > maxd:
                maxd = None
            xdev = [rng.choice(["-xdev", "-mount"])] if rng.random() < 0.15 else []        # (one file system here: changes nothing)
            if xdev:
                st.inc("runs_with_xdev")
            tail = xdev + (["-follow"] if mode == "follow" else []) + (["-mindepth", str(mind)] if mind or rng.random() < 0.1 else []) \
                + (["-maxdepth", str(maxd)] if maxd is not None else []) + (["-sorted"] if sorted_ else []) + ["-print0"]
            rmode = "L" if mode == "follow" else mode
            st.inc("follow:" + mode)
            if mind:
                st.inc("runs_with_mindepth")
            env = common.clean_env()
            st.inc("shape:" + shape)
            for r in roots:
                st.add("spellings", r.replace(sb, "ABS"))
            if shape == "none":
                if "--" in lead:
                    st.inc("option_terminator_and_no_starting_point")
                roots_eff = ["."]
                args = [common.FIND] + lead + tail
                stdin = None
            elif shape == "operands":
                if rng.random() < 0.12:
                    # an empty-string operand (find "$unset" ...) names nothing: diagnosed, non-zero exit, the others still walked
                    roots = list(roots)
                    roots.insert(rng.randrange(len(roots) + 1), "")
                    st.inc("runs_with_an_empty_string_operand")
                roots_eff = roots
                # operands that would be read as part of the expression cannot be given directly
                args = [common.FIND] + lead + roots + tail
                stdin = None
            else:
                names = list(roots)
                if shape != "equiv":
                    for _ in range(rng.choice([0, 1, 1, 2])):
                        names.insert(rng.randrange(len(names) + 1), rng.choice(ONLY_FILES0))
                n_empty = 0
                if shape != "equiv" and rng.random() < 0.35:
                    for _ in range(rng.choice([1, 1, 2])):
                        names.insert(rng.randrange(len(names) + 1), "")
                        n_empty += 1
                final_nul = rng.random() < 0.6
                if not final_nul and names and names[-1] == "":
                    # a trailing empty name without final NUL is the same bytes as "final NUL present"
                    final_nul = True
                    names = names[:-1]
                    n_empty -= 1
                data = b"\0".join(os.fsencode(x) for x in names) + (b"\0" if final_nul else b"")
                st.inc("files0_final_nul" if final_nul else "files0_no_final_nul")
                if n_empty > 0:
                    st.inc("files0_with_empty_names")
                if any(x in ONLY_FILES0 for x in names):
                    st.inc("files0_with_dash_or_newline_names")
                roots_eff = [x for x in names if x != ""]
                if shape == "files0-stdin":
                    # "-" or a name for the same pipe that is not a regular file (its reported size is 0)
                    src = rng.choice(["-", "-", "/dev/stdin", "/proc/self/fd/0"])
                    if src != "-":
                        st.inc("files0_from_a_non_regular_file")
                    args = [common.FIND] + lead + ["-files0-from", src] + tail
                    stdin = data
                else:
                    lf = os.path.join(base, "list-%d" % run)
                    with open(lf, "wb") as f:
                        f.write(data)
                    args = [common.FIND] + lead + ["-files0-from", lf] + tail
                    stdin = None
            rc, out, err, to = common.run_cmd(args, cwd=cwd, env=env, timeout=60, input=stdin)
            st.inc("evaluations")
            st.add("distinct", (shape, tuple(r.replace(sb, "ABS") for r in roots_eff), sorted_))
            rp = {"args": args, "cwd": "sb/inner", "stdin": stdin, "tree": "lib/c18.py build()"}
            if to or rc in (101, 134, -6, -11):
                st.violate("panic-or-hang", None, {"args": args, "rc": rc, "stderr": err[-300:]}, rp)
                continue
            got = [x.decode("utf-8", "surrogateescape") for x in out.split(b"\0")[:-1]]
            per, n_missing, w = expected(sb, cwd, roots_eff, sorted_, rmode, mind, maxd)
            if w.out_of_domain or any(e_[0] in ("loop", "unreadable") for e_ in w.errors):
                st.inc("out_of_domain(loop under a follow mode)")
                continue
            detail = {"args": [a.replace(sb, "ABS") for a in args[1:]], "shape": shape, "exit": rc, "stderr": err[-200:]}
            if shape.startswith("files0") or shape == "equiv":
                detail["names"] = roots_eff
            ok = compare(st, per, got, sorted_, detail, rp, mind)
            if n_missing:
                st.inc("runs_with_missing_starting_point")
                if rc == 0:
                    st.violate("missing-root-exit-0", None, detail, rp)
                if not err.strip():
                    st.violate("missing-root-no-diagnostic", None, detail, rp)
            elif rc != 0 and not (shape != "equiv" and shape.startswith("files0") and n_empty > 0):
                st.violate("nonzero-exit-without-error", None, detail, rp)
            if shape.startswith("files0") and n_empty > 0 and not err.strip():
                st.violate("empty-name-not-diagnosed", None, detail, rp)
            if n_missing and ok and shape in ("operands", "files0-file") and rng.random() < 0.6:
                # the same run with -quit after the action: the walk stops at the first entry reported - and a starting point that
                # could not be examined BEFORE that still shows in the exit status (later ones are never looked at)
                first = next((j for j, seg in enumerate(per) if seg), None)
                if first is not None:
                    args2 = args + ["-quit"]
                    rc2, out2, err2, to2 = common.run_cmd(args2, cwd=cwd, env=env, timeout=60, input=stdin)
                    got2 = [x.decode("utf-8", "surrogateescape") for x in out2.split(b"\0")[:-1]]
                    missing_before = [r_ for r_ in roots_eff[:first] if r_ == "" or not os.path.lexists(os.path.join(cwd, r_))]
                    st.inc("evaluations")
                    st.inc("runs_with_quit_after_the_first_reported_entry")
                    problems = []
                    if len(got2) != 1 or got2[0] not in per[first] or (sorted_ and got2[0] != per[first][0]):
                        problems.append("reported %r, expected exactly one entry of starting point #%d (%r)" % (got2[:3], first, per[first][:1]))
                    if missing_before:
                        st.inc("runs_with_quit_after_an_unusable_starting_point")
                        if rc2 == 0 or not err2.strip():
                            problems.append("exit status %r, stderr %r although %r could not be examined before -quit fired" % (rc2, err2[-120:], missing_before[:2]))
                    elif rc2 != 0:
                        problems.append("exit status %r, stderr %r: nothing failed before -quit fired" % (rc2, err2[-120:]))
                    if problems:
                        st.violate("missing-root-exit-0" if missing_before and rc2 == 0 else "wrong-output", None,
                                   dict(detail, args=[a.replace(sb, "ABS") for a in args2[1:]], problems=problems, exit=rc2), dict(rp, args=args2))
            if shape == "equiv" and ok:
                # the same names as operands must give byte-identical output and the same exit status
                rc2, out2, err2, to2 = common.run_cmd([common.FIND] + lead + roots_eff + tail, cwd=cwd, env=env, timeout=60)
                st.inc("equivalence_pairs")
                same = out2 == out if sorted_ else sorted(out2.split(b"\0")) == sorted(out.split(b"\0"))
                if not same or (rc2 == 0) != (rc == 0):
                    st.violate("files0-not-equivalent-to-operands", None, dict(detail, operands_exit=rc2, files0_exit=rc,
                                                                               operands_out=out2[:200], files0_out=out[:200]), rp)
            if run % 23 == 0:
                st.sample({"args": detail["args"], "names": roots_eff, "exit": rc, "paths": len(got)})
    finally:
        common.force_rmtree(base)
    return st


def long_list_worker(job):
    """A -files0-from list of more than a mebibyte (hundreds of thousands of names, from a file and from standard input): every name is
    a starting point, in list order, none dropped at any size boundary."""
    k, sizes, seed = job
    st = Stats()
    rng = common.rng_for(seed, "C18long", k)
    base = common.mkscratch("C18l%d" % k)
    sb = os.path.join(base, "sb")
    os.makedirs(sb)
    try:
        build(sb)
        cwd = os.path.join(sb, "inner")
        pool = [r.replace("ABS", sb) for r in DIR_SPELLINGS + FILE_SPELLINGS + ONLY_FILES0] + ["missing", "d/missing"]
        for target in sizes:
            roots, size = [], 0
            while size < target:
                r = rng.choice(pool)
                roots.append(r)
                size += len(os.fsencode(r)) + 1
            data = b"".join(os.fsencode(r) + b"\0" for r in roots)
            via = ["file", "stdin"][(k + len(roots)) % 2]
            lf = os.path.join(base, "long.lst")
            if via == "file":
                with open(lf, "wb") as f:
                    f.write(data)
                args, stdin = [common.FIND, "-files0-from", lf, "-maxdepth", "0", "-print0"], None
            else:
                args, stdin = [common.FIND, "-files0-from", "-", "-maxdepth", "0", "-print0"], data
            rc, out, err, to = common.run_cmd(args, cwd=cwd, env=common.clean_env(), timeout=600, input=stdin)
            got = [os.fsdecode(x) for x in out.split(b"\0")[:-1]]
            want = [r for r in roots if os.path.lexists(os.path.join(cwd, r))]
            nmiss = len(roots) - len(want)
            st.inc("evaluations")
            st.inc("starting_points_from_lists_over_1MiB", len(roots))
            st.inc("lists_over_1MiB_via_" + via)
            st.add("distinct", ("long-list", via, len(data)))
            rp = {"generator": "lib/c18.py long_list_worker", "seed": seed, "k": k, "bytes": len(data), "names": len(roots), "via": via}
            problems = []
            if to or rc in (101, 134, -6, -11):
                problems.append("crashed or hung (exit %r, stderr %r)" % (rc, err[-200:]))
            elif got != want:
                i = 0
                while i < min(len(got), len(want)) and got[i] == want[i]:
                    i += 1
                problems.append("%d starting points evaluated, expected %d; first difference at #%d (list offset about %d bytes): %r vs %r"
                                % (len(got), len(want), i, sum(len(os.fsencode(r)) + 1 for r in want[:i]), got[i:i + 2], want[i:i + 2]))
            if not problems and ((rc != 0) != (nmiss > 0)):
                problems.append("exit status %r with %d missing names" % (rc, nmiss))
            if problems:
                st.violate("wrong-output", None, {"args": ["find"] + args[1:], "list_bytes": len(data), "names": len(roots), "via": via, "problems": problems}, rp)
    finally:
        common.force_rmtree(base)
    return st


def run(ctx):
    ctx.rule = ("lists of 0-5 starting points drawn from 38 spellings of directories (d ./d d/ d// d/. x/../d absolute .//d ../a . ./ .. links, "
                "names with blanks / multi-byte / a lone '-' / whitespace-only and newline-only names / names starting with '(' '!' ',' ')'), 9 of non-directories (files, links, dangling), 5 missing ones, duplicates and nested "
                "ones; given as operands, as no operand at all, and as NUL-separated lists from a file and from stdin (with/without final NUL, "
                "with empty names, with names starting with '-' or containing a newline); half of the runs -sorted (exact sequence), the rest "
                "per-starting-point segments as multisets; distinct = (shape, names, sorted)")
    ctx.assumptions = ["lib/refwalk.py per starting point, children joined textually with one '/' unless the starting point ends in '/'",
                       "exit status after an empty -files0-from name not judged (statement: diagnosed and skipped)", "valid UTF-8 names",
                       "follow modes -P/-H/-L/-follow, the option terminator '--' and -mindepth/-maxdepth are varied; runs whose reference walk meets a link loop are not judged"]
    nw = common.NCPU
    n = ctx.scale(1600, 640000)
    ctx.pmap(worker, [(k, n // nw, ctx.seed) for k in range(nw)])
    MIB = 1 << 20
    sizes = [[MIB + 5000], [MIB - 3, MIB, MIB + 1], [3 * MIB]] if ctx.quick else \
        [[MIB + 5000], [MIB - 3, MIB, MIB + 1], [3 * MIB], [2 * MIB - 1, 2 * MIB + 7], [8 * MIB], [16 * MIB + 11], [MIB // 2, 5 * MIB], [65536 * 17]]
    ctx.pmap(long_list_worker, [(k, sz, ctx.seed) for k, sz in enumerate(sizes)])
    for key in ("shape:none", "shape:operands", "shape:files0-file", "shape:files0-stdin", "shape:equiv", "files0_no_final_nul", "files0_final_nul",
                "files0_with_empty_names", "files0_with_dash_or_newline_names", "runs_with_missing_starting_point", "equivalence_pairs",
                "option_terminator_and_no_starting_point", "runs_with_an_empty_string_operand", "files0_from_a_non_regular_file"):
        ctx.require(key, 5)
