"""Labelled test batches: evaluate many tests in one find run and see which entries each selected.
   ( T1 -printf 'k0:%p\\0' , T2 -printf 'k1:%p\\0' , ... )"""


def label_args(tests):
    """tests: list of token lists. Returns the parenthesised comma list."""
    args = ["("]
    for i, t in enumerate(tests):
        if i:
            args.append(",")
        args += list(t) + ["-printf", "k%d:%%p\\0" % i]
    args.append(")")
    return args


def parse(out, n):
    """-> list of n lists of selected paths (str), or None if the output is not of the expected form."""
    sel = [[] for _ in range(n)]
    for rec in out.split(b"\0"):
        if not rec:
            continue
        k, sep, p = rec.partition(b":")
        if not sep or not k.startswith(b"k"):
            return None
        try:
            i = int(k[1:])
        except ValueError:
            return None
        if i >= n:
            return None
        sel[i].append(p.decode("utf-8", "surrogateescape"))
    return sel
