"""C14 — numeric operands: N / +N / -N trichotomy, monotonicity, and -size unit rounding (round up).

Monitor: in-process find_main evaluates labelled clauses (T -N, T N, T +N) over a directory of sparse files whose sizes
sit on every unit boundary, hard-link groups, chown'ed files and files with injected ages; the monitor checks, per
(test, N): the three selections partition the files (oracle-free), +N/-N are monotone in N (oracle-free), and each
selection equals integer arithmetic on the os.lstat record (ceil(size/unit) for -size)."""
import os

import common
import lbl
from common import Stats

UNITS = {"c": 1, "w": 2, "b": 512, "": 512, "k": 1 << 10, "M": 1 << 20, "G": 1 << 30}
DAY, MIN = 86400, 60
NS = 10 ** 9
NOW_NS = 1_900_000_000 * NS + 123_456_789       # injected clock (2030), far from any real timestamp


def size_set():
    s = {0, 1, 2, 3, 511, 513}
    for u in (1, 2, 512, 1 << 10, 1 << 20, 1 << 30):
        for k in (1, 2, 3, 1023, 1024):
            for d in (-1, 0, 1):
                v = k * u + d
                if 0 <= v <= 3 * (1 << 30) + 1:
                    s.add(v)
    # beyond 32 bits (sparse files on tmpfs can be this large): 2^32, 2^33, 2^40, 2^62 boundaries
    for e in (32, 33, 40, 62):
        s |= {2 ** e - 1, 2 ** e, 2 ** e + 1}
    s.add(2 ** 63 - 1)
    return sorted(s)


def build(sb, rng, quick=True):
    d = os.path.join(sb, "d")
    os.makedirs(d)
    files = {}
    sizes = size_set()
    if not quick:
        r2 = common.rng_for(7, "C14sizes")
        sizes = sorted(set(sizes) | set(int(2 ** r2.uniform(0, 31.6)) for _ in range(300)))
    for sz in sizes:
        p = os.path.join(d, "s%d" % sz)
        with open(p, "wb") as f:
            f.truncate(sz)
        files["d/s%d" % sz] = None
    # hard-link groups
    for k in range(1, 6):
        p0 = os.path.join(d, "h%d_0" % k)
        open(p0, "wb").close()
        for j in range(1, k):
            os.link(p0, os.path.join(d, "h%d_%d" % (k, j)))
    # symbolic links (unfollowed here): their own status record is what is measured - one link, the link's own size
    os.symlink("nowhere", os.path.join(d, "ldang"))
    os.symlink(".", os.path.join(d, "ldir"))
    os.symlink("h5_0", os.path.join(d, "lhard5"))
    # owners
    for i, (u, g) in enumerate([(0, 0), (1, 2), (2, 1), (65534, 65534), (54321, 54322), (3, 0)]):
        p = os.path.join(d, "o%d" % i)
        open(p, "wb").close()
        os.chown(p, u, g)
    # ages: mtime and atime independent, around k*period boundaries, including the future (negative age)
    ages = []
    for P in (DAY, MIN):
        for k in (0, 1, 2, 3, 7):
            for e in (-NS, -1, 0, 1, NS):
                ages.append(k * P * NS + e)
    ages += [-1, -NS, -DAY * NS // 2, -DAY * NS - 1, -3 * MIN * NS, 400 * DAY * NS,
             # far in the future (beyond 2^63 ns from now) and far in the past (beyond 2^31 s): nothing may wrap
             -300 * 365 * DAY * NS, -420 * 365 * DAY * NS, -(2 ** 63) - 12345, 80 * 365 * DAY * NS, 129 * 365 * DAY * NS]
    ages = sorted(set(ages))
    for i, a in enumerate(ages):
        p = os.path.join(d, "t%03d" % i)
        open(p, "wb").close()
        a2 = ages[(i * 7 + 3) % len(ages)]
        os.utime(p, ns=(NOW_NS - a2, NOW_NS - a))
    os.utime(d, ns=(NOW_NS - 5 * DAY * NS, NOW_NS - 5 * DAY * NS))
    ents = ["d"] + sorted("d/" + n for n in os.listdir(d))
    st = {p: os.lstat(os.path.join(sb, p)) for p in ents}
    return ents, st


def floor_div(a, b):
    return a // b   # Python floors (also for negative a)


def measure(kind, st, now_ns=None):
    """Returns function lstat -> integer measured value."""
    now_ns = NOW_NS if now_ns is None else now_ns
    if kind.startswith("-size"):
        u = UNITS[kind[5:]]
        return lambda s: -(-s.st_size // u)
    if kind == "-links":
        return lambda s: s.st_nlink
    if kind == "-inum":
        return lambda s: s.st_ino
    if kind == "-uid":
        return lambda s: s.st_uid
    if kind == "-gid":
        return lambda s: s.st_gid
    per = DAY if kind.endswith("time") else MIN
    which = {"a": "st_atime_ns", "m": "st_mtime_ns", "c": "st_ctime_ns"}[kind[1]]
    return lambda s: floor_div(floor_div(now_ns - getattr(s, which), NS), per)


def args_for(kind, spec):
    if kind.startswith("-size"):
        return ["-size", spec + kind[5:]]
    return [kind, spec]


BIG = [2 ** 31 - 1, 2 ** 31, 2 ** 32 - 1, 2 ** 32, 2 ** 53, 2 ** 63 - 1, 2 ** 63, 2 ** 64 - 1]


def plan(rng, st, quick):
    """List of (kind, N)."""
    out = []
    sizes = sorted(set(s.st_size for s in st.values()))
    for suf in ("c", "w", "b", "", "k", "M", "G"):
        u = UNITS[suf]
        ns = {0, 1, 2}
        for sz in sizes:
            v = -(-sz // u)
            ns |= {max(0, v - 1), v, v + 1}
        ns = sorted(ns)
        if quick:
            ns = sorted(set(rng.sample(ns, min(len(ns), 60)) + [0, 1, 2]))
        else:
            ns = sorted(set(ns) | set(rng.randrange(0, 4 * (1 << 30) // u + 3) for _ in range(150)))
        ns += BIG if not quick else rng.sample(BIG, 4)
        out += [("-size" + suf, n) for n in ns]
    for n in list(range(0, 8)) + rng.sample(BIG, 2):
        out.append(("-links", n))
    inos = sorted(set(s.st_ino for s in st.values()))
    for n in rng.sample(inos, 6) + [0, inos[0] - 1, inos[-1] + 1, 2 ** 64 - 1]:
        out.append(("-inum", max(0, n)))
    for n in (0, 1, 2, 3, 4, 65533, 65534, 65535, 54321, 54322, 2 ** 32 - 1, 2 ** 32):
        out.append(("-uid", n))
        out.append(("-gid", n))
    for kind in ("-mtime", "-atime", "-mmin", "-amin"):
        # (2^64 - k: the two's-complement image of a negative age of k periods — future-dated files exist in the tree)
        for n in (0, 1, 2, 3, 4, 6, 7, 8, 59, 60, 61, 399, 400, 401, 1439, 1440, 1441, 2880, 10080, 576000, 2 ** 62, 2 ** 63 - 1, 2 ** 63, 2 ** 63 + 1,
                  2 ** 64 - 1441, 2 ** 64 - 721, 2 ** 64 - 720, 2 ** 64 - 4, 2 ** 64 - 3, 2 ** 64 - 2, 2 ** 64 - 1):
            out.append((kind, n))
    return out


def worker(job):
    k, nw, seed, quick = job
    st = Stats()
    rng = common.rng_for(seed, "C14", 0)            # same plan in every worker; each takes a share
    sb = common.mkscratch("C14w%d" % k)
    try:
        ents, lst = build(sb, rng, quick)
        triples = plan(rng, lst, quick)
        mine = [t for i, t in enumerate(triples) if i % nw == k]
        evaluate(st, sb, ents, lst, mine, NOW_NS, "lib/c14.py build()")
        if k == 0:
            st.sample({"files": len(ents), "sizes": size_set()[:12], "triples": mine[:6]})
    finally:
        common.force_rmtree(sb)
    return st


def random_worker(job):
    """Rounds with a random tree: log-uniform sparse sizes up to 2^63-1, random owners, random time stamps at ns resolution around a
    random injected clock; operands at and next to every measured value plus random ones."""
    k, rounds, seed = job
    st = Stats()
    for rd in range(rounds):
        rng = common.rng_for(seed, "C14r", k * 100003 + rd)
        sb = common.mkscratch("C14r%d" % k)
        try:
            d = os.path.join(sb, "d")
            os.makedirs(d)
            now_ns = rng.randrange(10 ** 9, 4 * 10 ** 9) * NS + rng.randrange(NS)
            n_files = 40
            for i in range(n_files):
                p_ = os.path.join(d, "f%02d" % i)
                with open(p_, "wb") as f:
                    e = rng.uniform(0, 63)
                    sz = min(2 ** 63 - 1, int(2 ** e) + rng.choice([-1, 0, 0, 1]))
                    if rng.random() < 0.3:
                        u = rng.choice([2, 512, 1 << 10, 1 << 20, 1 << 30])
                        sz = min(2 ** 63 - 1, max(0, rng.randrange(0, 5000) * u + rng.choice([-1, 0, 1])))
                    try:
                        f.truncate(max(0, sz))
                    except OSError:
                        f.truncate(rng.randrange(0, 1 << 40))
                os.chown(p_, rng.choice([0, 1, 2, 1000, 65534, rng.randrange(0, 2 ** 32 - 1)]), rng.choice([0, 1, 5, 65534, rng.randrange(0, 2 ** 32 - 1)]))
                per = rng.choice([DAY, MIN])
                age = rng.choice([rng.randrange(0, 3000) * per * NS + rng.choice([-NS, -1, 0, 1, NS, rng.randrange(per * NS)]),
                                  rng.randrange(-3 * DAY * NS, 800 * DAY * NS)])
                age2 = rng.randrange(-DAY * NS, 800 * DAY * NS)
                os.utime(p_, ns=(max(0, now_ns - age2), max(0, now_ns - age)))
                for j in range(rng.choice([0, 0, 0, 1, 3])):
                    os.link(p_, os.path.join(d, "f%02d_l%d" % (i, j)))
            # entries that are not regular files (FIFO, socket, device nodes): their status record has a size like any other (0)
            import socket as socket_
            import stat as stat_
            for nm_, mk in (("zfifo", lambda p_: os.mkfifo(p_)), ("zchr", lambda p_: os.mknod(p_, 0o600 | stat_.S_IFCHR, os.makedev(1, 3))),
                            ("zblk", lambda p_: os.mknod(p_, 0o600 | stat_.S_IFBLK, os.makedev(7, 99))),
                            ("zsock", lambda p_: socket_.socket(socket_.AF_UNIX).bind(p_))):
                try:
                    mk(os.path.join(d, nm_))
                    st.inc("special_file_entries")
                except OSError:
                    st.inc("special_files_not_permitted")
            # a mount point below the starting point: its status record (inode number, link count, times) is that of the mounted
            # file system's root, not what the directory listing of d says
            import subprocess
            os.mkdir(os.path.join(d, "mnt"))
            if subprocess.run(["mount", "-t", "tmpfs", "-o", "size=64k", "none", os.path.join(d, "mnt")], capture_output=True).returncode == 0:
                st.inc("rounds_with_a_mount_point")
            else:
                st.inc("mount_not_permitted")
            ents = ["d"] + sorted("d/" + n for n in os.listdir(d))
            lst = {p_: os.lstat(os.path.join(sb, p_)) for p_ in ents}
            triples = [("-inum", lst["d/mnt"].st_ino), ("-inum", lst["d/mnt"].st_ino + 1), ("-links", lst["d/mnt"].st_nlink)]
            kinds = ["-size" + s_ for s_ in ("c", "w", "b", "", "k", "M", "G")] + ["-links", "-inum", "-uid", "-gid", "-mtime", "-atime", "-mmin",
                                                                                     "-amin", "-ctime", "-cmin"]
            for kind in kinds:
                f = measure(kind, lst, now_ns)
                vals = sorted(set(f(x) for x in lst.values()))
                ns = set()
                for v in rng.sample(vals, min(len(vals), 10)):
                    ns |= {v - 1, v, v + 1}
                ns |= {0, 1, rng.randrange(0, 2 ** 64), rng.randrange(0, 2 ** 33)}
                triples += [(kind, n) for n in sorted(ns) if 0 <= n < 2 ** 64]
            st.inc("random_rounds")
            overwide(st, rng, sb, ents, kinds, now_ns)
            evaluate(st, sb, ents, lst, triples, now_ns, "lib/c14.py random_worker seed=%r k=%d round=%d" % (seed, k, rd))
        finally:
            common.force_rmtree(sb)
    return st


def overwide(st, rng, sb, ents, kinds, now_ns):
    """Operands of 2^64 and more (round 9): no measured value reaches them, so either the operand is rejected (non-zero exit, nothing
    selected) or it compares as the number it spells: +N and N false, -N true for every entry. Never read as some smaller number."""
    cases, meta = [], {}
    for i, kind in enumerate(rng.sample(kinds, 5)):
        n = rng.choice([2 ** 64, 2 ** 64 + rng.randrange(1, 1000), 10 ** rng.randrange(20, 40), 2 ** 65 - 1, 2 ** 64 * 10])
        for sg in ("-", "", "+"):
            args = ["find", "d", "-sorted"] + lbl.label_args([args_for(kind, sg + str(n))])
            cid = "w%d%s" % (i, sg)
            cases.append((cid, args, now_ns))
            meta[cid] = (kind, n, sg, args)
    res = common.run_find_inproc(cases, sb, sb)
    for cid, (kind, n, sg, args) in meta.items():
        r = res[cid]
        rp = {"args": args, "now_ns": now_ns, "tree": "over-wide operand"}
        st.inc("overwide_operand_runs")
        if r.special or r.panic:
            st.violate("panic-or-hang", None, {"args": args, "panic": r.panic, "special": r.special}, rp)
            continue
        sel = lbl.parse(r.out, 1)
        if r.code != 0:
            if sel and sel[0]:
                st.violate("overwide-operand", kind + sg, {"test": kind, "operand": sg + str(n), "exit": r.code, "selected": sorted(sel[0])[:5],
                                                           "note": "rejected, yet entries were selected"}, rp)
            else:
                st.inc("overwide_operand_rejected")
            continue
        want = set(ents) if sg == "-" else set()
        if sel is None or set(sel[0]) != want:
            st.violate("overwide-operand", kind + sg, {"test": kind, "operand": sg + str(n), "exit": 0, "selected": None if sel is None else sorted(sel[0])[:5],
                                                       "expected": "every entry" if sg == "-" else "no entry",
                                                       "note": "no measured value reaches 2^64: the operand was read as a different number"}, rp)
        else:
            st.inc("overwide_operand_compared_as_spelled")


def evaluate(st, sb, ents, lst, mine, now_ns, tree_desc):
    if True:
        TB = 6
        cases, meta = [], {}
        for b in range(0, len(mine), TB):
            batch = mine[b:b + TB]
            tests = []
            for kind, n in batch:
                for sg in ("-", "", "+"):
                    tests.append(args_for(kind, sg + str(n)))
            cid = "c%d" % b
            args = ["find", "d", "-sorted"] + lbl.label_args(tests)
            cases.append((cid, args, now_ns))
            meta[cid] = (batch, args)
        res = common.run_find_inproc(cases, sb, sb)
        results = {}   # (kind, n) -> (less, equal, more) sets
        for cid, (batch, args) in meta.items():
            r = res[cid]
            rp = {"args": args, "now_ns": now_ns, "tree": tree_desc}
            if r.special or r.panic:
                st.violate("panic-or-hang", None, {"args": args, "panic": r.panic, "special": r.special}, rp)
                continue
            if r.code != 0:
                # a very large operand may be rejected (not judged) — but only operands >= 2^64 are allowed to be
                st.violate("rejected-operand", None, {"args": args, "exit": r.code, "stderr": r.fd2[-300:]}, rp)
                continue
            sel = lbl.parse(r.out, 3 * len(batch))
            if sel is None:
                st.violate("garbled-output", None, {"args": args, "out": r.out[:200]}, rp)
                continue
            for i, (kind, n) in enumerate(batch):
                less, eq, more = (set(sel[3 * i]), set(sel[3 * i + 1]), set(sel[3 * i + 2]))
                results[(kind, n)] = (less, eq, more)
                f = measure(kind, lst, now_ns)
                st.inc("triples")
                st.inc("family:" + (kind if not kind.startswith("-size") else "-size"))
                st.add("distinct", (kind, n))
                unit_cell = kind + ":" + ("big" if n >= 2 ** 31 else "small")
                st.add("cells", unit_cell)
                for p in ents:
                    st.inc("evaluations")
                    cnt = (p in less) + (p in eq) + (p in more)
                    v = f(lst[p])
                    if cnt != 1:
                        st.violate("trichotomy", None, {"test": kind, "N": n, "file": p, "measured": v, "true_forms": [x for x, s in (("-N", less), ("N", eq), ("+N", more)) if p in s]}, rp)
                        continue
                    want = "less" if v < n else ("eq" if v == n else "more")
                    got = "less" if p in less else ("eq" if p in eq else "more")
                    if kind[1] in "amc" and kind[2:] in ("time", "min") and v < 0:
                        # a time stamp in the future: whether the fraction is discarded towards zero (value 0) or downwards (value -1)
                        # is not stated, but either way the value is not positive: +N is false, and -N is true for every N >= 1
                        st.inc("negative_age_evaluations_trichotomy_only")
                        if got == "more" or (n >= 1 and got != "less"):
                            st.violate("wrong-comparison", None, {"test": kind, "N": n, "file": p, "measured": v, "note": "time stamp in the future: the "
                                                                  "measured value is 0 or negative", "expected": "less" if n >= 1 else "less or eq", "find": got}, rp)
                        continue
                    if want != got:
                        st.violate("wrong-comparison", None, {"test": kind, "N": n, "file": p, "measured": v, "bytes": lst[p].st_size, "expected": want,
                                                              "find": got}, rp)
                    if kind.startswith("-size") and lst[p].st_size % UNITS[kind[5:]] != 0:
                        st.inc("size_evaluations_needing_round_up")
        # monotonicity across N (oracle-free)
        by_kind = {}
        for (kind, n), v in results.items():
            by_kind.setdefault(kind, []).append((n, v))
        for kind, lst_ in by_kind.items():
            lst_.sort()
            for (n1, (l1, e1, m1)), (n2, (l2, e2, m2)) in zip(lst_, lst_[1:]):
                st.inc("monotonicity_pairs")
                if not (m2 <= m1):
                    st.violate("not-monotone", None, {"test": kind, "form": "+N", "N1": n1, "N2": n2, "gained": sorted(m2 - m1)[:4]}, {"kind": kind})
                if not (l1 <= l2):
                    st.violate("not-monotone", None, {"test": kind, "form": "-N", "N1": n1, "N2": n2, "lost": sorted(l1 - l2)[:4]}, {"kind": kind})


def run(ctx):
    ctx.rule = ("files: sparse files of size 0,1,2 and k*u-1, k*u, k*u+1 for u in {1,2,512,2^10,2^20,2^30}, k in {1,2,3,1023,1024} up to 3GiB+1, plus 2^32, 2^33, 2^40, 2^62 (+-1) and 2^63-1; "
                "hard-link groups 1-5; chown'ed files; files whose mtime/atime are (injected now) - age for ages around k*day and k*minute "
                "incl. the future. Operands: around every file's rounded size per unit, 0/1/2 and 2^31..2^64-1; every triple (T -N, T N, T +N) "
                "is evaluated in one run; plus rounds over random trees (log-uniform sparse sizes up to 2^63-1, random owners, ns-resolution "
                "time stamps around a random injected clock, -ctime/-cmin included) with operands at and next to every measured value; "
                "distinct = (test with unit, N)")
    ctx.assumptions = ["integer arithmetic on os.lstat records; injected clock via Dependencies::now()", "N >= 2^64 not used",
                       "negative ages judged for trichotomy/monotonicity only"]
    nw = common.NCPU
    ctx.pmap(worker, [(k, nw, ctx.seed, ctx.quick) for k in range(nw)])
    rounds = 1 if ctx.quick else 150
    ctx.pmap(random_worker, [(k, rounds, ctx.seed) for k in range(nw)])
    # the three forms evaluated seconds apart in one run of the real binary (its real clock): still exactly one of them, and the
    # same one, for the same file (lib/c15.py clock_worker)
    import c15
    ctx.pmap(c15.clock_worker, [(k, 1 if ctx.quick else 8, ctx.seed + 7919) for k in range(nw)])
    ctx.require("clock_runs_in_which_the_age_crossed_the_boundary_during_the_pause", 1)
    ctx.require("random_rounds", nw)
    for key in ("family:-size", "family:-links", "family:-inum", "family:-uid", "family:-gid", "family:-mtime", "family:-amin",
                "size_evaluations_needing_round_up", "monotonicity_pairs", "negative_age_evaluations_trichotomy_only"):
        ctx.require(key, 3)
