"""C15 — time tests: whole elapsed periods, strict -newer, -newerXY compares X(entry) with Y(reference).

Monitor: in-process find_main with an injected clock (Dependencies::now()). Files get atime/mtime with utimensat at ns
resolution (age = k*period - e, k*period, k*period + e); ctime cannot be set, so it is read back and `now` is placed
relative to it. The oracle is integer ns arithmetic on os.lstat records: floor((now - ts_X)/period) cmp N, and
ts_X(entry) > ts_Y(reference) for the -newer family."""
import os
import time

import common
import lbl
from common import Stats

NS = 10 ** 9
DAY, MIN = 86400 * NS, 60 * NS
KINDS = {"-atime": ("a", DAY), "-mtime": ("m", DAY), "-ctime": ("c", DAY), "-amin": ("a", MIN), "-mmin": ("m", MIN), "-cmin": ("c", MIN)}
FIELD = {"a": "st_atime_ns", "m": "st_mtime_ns", "c": "st_ctime_ns"}


def ts(st, x):
    return getattr(st, FIELD[x])


def cmpn(spec, v):
    if spec.startswith("+"):
        return v > int(spec[1:])
    if spec.startswith("-"):
        return v < int(spec[1:])
    return v == int(spec)


def age_worker(job):
    """-Xtime/-Xmin with ages on and around period boundaries."""
    k, nruns, seed = job
    st = Stats()
    rng = common.rng_for(seed, "C15a", k)
    base = common.mkscratch("C15a%d" % k)
    try:
        for run in range(nruns):
            sb = os.path.join(base, "r%d" % run)
            d = os.path.join(sb, "d")
            os.makedirs(d)
            names = ["f%02d" % i for i in range(rng.randint(8, 20))]
            for nm in names:
                open(os.path.join(d, nm), "wb").close()
            files = ["d/" + nm for nm in names]
            # ctime cannot be set: in half of the runs one file's ctime is read back and `now` is placed k*period + e after
            # it (that file is not touched again); otherwise `now` is some time in the future of every ctime.
            cfile = rng.choice(files)
            far = time.time_ns() - rng.choice([1000, 2000]) * DAY - rng.randrange(NS)
            os.utime(os.path.join(sb, cfile), ns=(far - rng.randrange(DAY), far))
            if rng.random() < 0.5:
                c = os.lstat(os.path.join(sb, cfile)).st_ctime_ns
                per = rng.choice([DAY, MIN])
                now = c + rng.choice([0, 1, 2, 3, 10]) * per + rng.choice([0, 0, 1, 10 ** 6, NS, per - 1, per - NS, per // 2])
                st.inc("runs_with_ctime_boundary")
            else:
                now = time.time_ns() + rng.choice([5, 3600, 86400 * 3, 86400 * 40]) * NS + rng.randrange(NS)
            for f in files:
                if f == cfile:
                    continue
                per = rng.choice([DAY, MIN])
                kk = rng.choice([0, 0, 1, 1, 2, 3, 5, 30, 400])
                if rng.random() < 0.15:
                    # ages beyond 2^31 seconds / time stamps before 1970 (and before 1958, 1901): still whole periods, nothing wraps
                    kk = rng.choice([24856, 25000, 30000, 45000]) * (1 if per == DAY else 1440)
                    st.inc("files_older_than_2^31_seconds")
                e = rng.choice([0, 0, 1, -1, 10 ** 6, -10 ** 6, NS, -NS, NS - 1, per // 2])
                age_m = max(0, kk * per + e)
                per2 = rng.choice([DAY, MIN])
                age_a = max(0, rng.choice([0, 1, 2, 7]) * per2 + rng.choice([0, 1, -1, NS, -NS, 999_999_999]))
                os.utime(os.path.join(sb, f), ns=(now - age_a, now - age_m))
            lst = {f: os.lstat(os.path.join(sb, f)) for f in files}
            tests = []
            specs = []
            for kind, (x, per) in KINDS.items():
                vals = set()
                for f in files:
                    v = (now - ts(lst[f], x)) // per
                    vals |= {v, v + 1, max(0, v - 1)}
                vals = set(v for v in vals if v >= 0)
                for n in rng.sample(sorted(vals), min(len(vals), 5)):
                    for sg in ("", "+", "-"):
                        tests.append([kind, sg + str(n)])
                        specs.append((kind, sg + str(n)))
            args = ["find", "d", "-mindepth", "1", "-sorted"] + lbl.label_args(tests)
            env = None
            if rng.random() < 0.4:
                # a time zone with daylight saving whose clocks changed one to three days before `now` (or change shortly after it): ages
                # are elapsed time, so the hour the wall clock skipped or repeated does not enter them
                yday = time.gmtime(now // NS - rng.choice([1, 2, 3, -1]) * 86400 - 43200).tm_yday - 1
                a_, b_ = yday, (yday + rng.choice([30, 180, 300])) % 365
                if rng.random() < 0.5:
                    a_, b_ = b_, a_
                env = dict(os.environ, TZ="VST%dVDT,%d/%d,%d/%d" % (rng.choice([0, -5, 8]), a_, rng.choice([0, 2]), b_, rng.choice([0, 3])))
                st.inc("age_runs_under_a_time_zone_whose_clocks_changed_nearby")
            both = common.run_find_inproc([("c", args, now), ("t", args + [",", "-daystart"], now)], sb, sb, env=env)
            res = both["c"]
            # -daystart changes the reference instant only for the tests written AFTER it: put at the very end it changes nothing
            st.inc("runs_with_a_trailing_daystart")
            if both["t"].out != res.out or both["t"].code != res.code:
                st.violate("wrong-age-test", None, {"problem": "a -daystart at the end of the expression changed the answers of the tests before it",
                                                    "args": args + [",", "-daystart"], "without": res.out[:300], "with": both["t"].out[:300]},
                           {"args": args + [",", "-daystart"], "now_ns": now})
            rp = {"args": args, "now_ns": now, "files": {f: {"atime_ns": lst[f].st_atime_ns, "mtime_ns": lst[f].st_mtime_ns, "ctime_ns": lst[f].st_ctime_ns}
                                                            for f in files}}
            st.inc("runs")
            if res.special or res.panic or res.code != 0:
                st.violate("failed-run", None, {"args": args, "panic": res.panic, "special": res.special, "exit": res.code, "stderr": res.fd2[-200:]}, rp)
                common.force_rmtree(sb)
                continue
            sel = lbl.parse(res.out, len(tests))
            if sel is None:
                st.violate("garbled-output", None, {"args": args, "out": res.out[:200]}, rp)
                common.force_rmtree(sb)
                continue
            for (kind, spec), got in zip(specs, sel):
                x, per = KINDS[kind]
                st.add("distinct", (kind, spec, now % 1000))
                for f in files:
                    age = now - ts(lst[f], x)
                    if age < 0:
                        st.inc("out_of_domain_negative_age")
                        continue
                    v = age // per
                    want = cmpn(spec, v)
                    st.inc("evaluations")
                    st.inc("kind:" + kind)
                    rem = age % per
                    cell = "exact" if rem == 0 else ("just-after" if rem <= NS else ("just-before" if per - rem <= NS else "middle"))
                    st.add("boundary_cells", (kind, min(v, 9), cell))
                    if cell != "middle":
                        st.inc("boundary_evaluations")
                    if (f in got) != want:
                        st.violate("wrong-age-test", None, {"test": [kind, spec], "file": f, "age_ns": age, "whole_periods": v, "expected": want,
                                                            "find": f in got, "timestamp_kind": x}, rp)
            if run % 9 == 0:
                st.sample({"now_ns": now, "tests": specs[:4], "ages_m_ns": [now - lst[f].st_mtime_ns for f in files[:4]]})
            common.force_rmtree(sb)
    finally:
        common.force_rmtree(base)
    return st


def clock_worker(job):
    """'now' is fixed when find starts: the same time test evaluated before and after a pause gives the same answer for the same
    file, although the file's age crosses a minute boundary during the pause (real binary, real clock; the pause is an -exec sleep).
    Also exactly one of -N, N, +N holds each time. A start-up delay that lets the boundary pass before find starts makes the run
    uninformative (counted), never a violation."""
    k, nruns, seed = job
    st = Stats()
    rng = common.rng_for(seed, "C15clock", k)
    base = common.mkscratch("C15c%d" % k)
    try:
        for run in range(nruns):
            sb = os.path.join(base, "c%d" % run)
            os.makedirs(os.path.join(sb, "d"))
            kind, x = rng.choice([("-mmin", "m"), ("-amin", "a")])
            n = rng.choice([1, 2, 3])
            files = ["d/f1", "d/f2"]
            for f in files:
                open(os.path.join(sb, f), "wb").close()
            t0 = time.time_ns()
            age = n * MIN - 3 * NS                                 # 3 s before the file becomes n minutes old
            for f in files:
                os.utime(os.path.join(sb, f), ns=((t0 - age, t0 - 5 * DAY) if x == "a" else (t0 - 5 * DAY, t0 - age)))

            def triple(tag):
                return ["(", kind, "-%d" % n, "-printf", tag + "L:%p\\0", ")", ",", "(", kind, str(n), "-printf", tag + "E:%p\\0", ")", ",",
                        "(", kind, "+%d" % n, "-printf", tag + "M:%p\\0", ")"]
            args = [common.FIND, "d", "-mindepth", "1", "-sorted"] + triple("1") + [",", "-exec", "sleep", "5", ";", ","] + triple("2")
            rc, out, err, to = common.run_cmd(args, cwd=sb, env=common.clean_env(), timeout=120)
            st.inc("evaluations")
            st.inc("clock_runs")
            rp = {"args": ["find"] + args[1:], "mtime_age_at_setup_ns": age}
            recs = [r_.decode() for r_ in out.split(b"\0")[:-1]]
            problems = []
            for f in files:
                before = [r_[1] for r_ in recs if r_.startswith("1") and r_.endswith(":" + f)]
                after = [r_[1] for r_ in recs if r_.startswith("2") and r_.endswith(":" + f)]
                if len(before) != 1 or len(after) != 1:
                    problems.append("%s: forms true before the pause %r, after %r (exactly one of -N, N, +N each time)" % (f, before, after))
                elif before != after:
                    problems.append("%s: %s answered %r before the pause and %r after it - the reference instant moved" % (f, kind, before[0], after[0]))
            st.add("distinct", (kind, n))
            if recs and any(r_.startswith("1L") for r_ in recs):
                st.inc("clock_runs_in_which_the_age_crossed_the_boundary_during_the_pause")
            else:
                st.inc("clock_runs_uninformative(started too late)")
            if rc != 0 or to or problems:
                st.violate("wrong-age-test", None, {"args": ["find"] + args[1:], "problems": problems or ["exit %r %r" % (rc, err[-200:])], "records": recs}, rp)
            common.force_rmtree(sb)
    finally:
        common.force_rmtree(base)
    return st


XY = [(x, y) for x in "acm" for y in "acm"]


def newer_worker(job):
    """-newer / -newerXY / -anewer / -cnewer with reference files whose three timestamps differ and entries placed at
    Y(ref) - 1ns, Y(ref), Y(ref) + 1ns."""
    k, nruns, seed = job
    st = Stats()
    rng = common.rng_for(seed, "C15n", k)
    base = common.mkscratch("C15n%d" % k)
    try:
        for run in range(nruns):
            sb = os.path.join(base, "r%d" % run)
            d = os.path.join(sb, "d")
            os.makedirs(d)
            t0 = time.time_ns()
            # reference: atime and mtime chosen well apart from each other and from ctime (= creation, about t0)
            ref = os.path.join(sb, "ref")
            open(ref, "wb").close()
            ra = t0 - rng.choice([10, 1000, 86400]) * NS - rng.randrange(NS)
            rm = t0 - rng.choice([20, 5000, 172800]) * NS - rng.randrange(NS)
            os.utime(ref, ns=(ra, rm))
            rst = os.lstat(ref)
            rts = {"a": rst.st_atime_ns, "m": rst.st_mtime_ns, "c": rst.st_ctime_ns}
            files = []
            # entries: for Y in a,m,c place atime and mtime around Y(ref); ctime of entries is their creation time (> ref's ctime),
            # so for X = c a second group of entries is created BEFORE the reference is touched again (see below)
            for y in "amc":
                for delta in (-1, 0, 1, -NS, NS, -1000, 1000):
                    for which in ("a", "m"):
                        p = os.path.join(d, "e_%s_%s_%d" % (y, which, delta))
                        open(p, "wb").close()
                        other = t0 - rng.choice([3, 77, 40000]) * NS - 12345
                        if which == "a":
                            os.utime(p, ns=(rts[y] + delta, other))
                        else:
                            os.utime(p, ns=(other, rts[y] + delta))
                        files.append(os.path.relpath(p, sb))
            # X = c: the entries' ctimes are 'now'; make a second reference whose a/m timestamps are placed around one entry's ctime
            pivot = files[rng.randrange(len(files))]
            pc = os.lstat(os.path.join(sb, pivot)).st_ctime_ns
            ref2 = os.path.join(sb, "ref2")
            open(ref2, "wb").close()
            os.utime(ref2, ns=(pc + rng.choice([-1, 0, 1]), pc + rng.choice([-1, 0, 1])))
            r2 = os.lstat(ref2)
            # a third reference that is itself one of the walked entries (with a hard link beside it), its own X timestamps in a
            # different order than its Y timestamps: "X of the entry against Y of the reference" has no exception for the reference
            ref3 = os.path.join(d, "ref3")
            open(ref3, "wb").close()
            a3, m3 = sorted([t0 - rng.choice([10, 500]) * NS - rng.randrange(NS), t0 - rng.choice([2000, 90000]) * NS - rng.randrange(NS)],
                            reverse=rng.random() < 0.7)
            os.utime(ref3, ns=(a3, m3))
            os.link(ref3, os.path.join(d, "ref3.lnk"))
            r3 = os.lstat(ref3)
            files += ["d/ref3", "d/ref3.lnk"]
            # time stamps before 1970 on both sides (negative seconds since the epoch): the comparison is the same
            oref = os.path.join(sb, "oldref")
            open(oref, "wb").close()
            o_a, o_m = -rng.randrange(10 ** 8, 3 * 10 ** 8) * NS - rng.randrange(NS), -rng.randrange(10 ** 8, 3 * 10 ** 8) * NS - rng.randrange(NS)
            os.utime(oref, ns=(o_a, o_m))
            ro = os.lstat(oref)
            for y_, base_ in (("a", ro.st_atime_ns), ("m", ro.st_mtime_ns)):
                for delta in (-1, 0, 1, -86400 * NS, 86400 * NS):
                    for which in ("a", "m"):
                        p_ = os.path.join(d, "old_%s_%s_%d" % (y_, which, delta))
                        open(p_, "wb").close()
                        other = -rng.randrange(10 ** 7, 4 * 10 ** 8) * NS
                        os.utime(p_, ns=((base_ + delta, other) if which == "a" else (other, base_ + delta)))
                        files.append(os.path.relpath(p_, sb))
            # symbolic links among the walked entries whose own time stamps lie on the other side of the reference's than their
            # target's: the entry's X time stamp is the link's own under -P and under -H (which follows starting points only), the
            # target's under -L
            for nm_, (own, tgt) in (("lk_young", (1, -1)), ("lk_old", (-1, 1)), ("lk_edge", (0, 1))):
                tp = os.path.join(d, nm_ + ".t")
                open(tp, "wb").close()
                os.utime(tp, ns=(rts["a"] + tgt * rng.choice([1, NS, 3600 * NS]), rts["m"] + tgt * rng.choice([1, NS, 3600 * NS])))
                os.symlink(nm_ + ".t", os.path.join(d, nm_))
                os.utime(os.path.join(d, nm_), ns=(rts["a"] + own * rng.choice([1, NS, 3600 * NS]), rts["m"] + own * rng.choice([1, NS, 3600 * NS])),
                         follow_symlinks=False)
                files += ["d/" + nm_, "d/" + nm_ + ".t"]
            lst = {f: os.lstat(os.path.join(sb, f)) for f in files}
            tests, specs = [], []
            for (x, y) in XY:
                tests.append(["-newer%s%s" % (x, y), "ref"])
                specs.append((x, y, "ref", "-newer%s%s" % (x, y)))
            for nm, (x, y) in (("-newer", ("m", "m")), ("-anewer", ("a", "m")), ("-cnewer", ("c", "m"))):
                tests.append([nm, "ref"])
                specs.append((x, y, "ref", nm))
            for (x, y) in (("c", "a"), ("c", "m"), ("a", "a"), ("m", "a")):
                tests.append(["-newer%s%s" % (x, y), "ref2"])
                specs.append((x, y, "ref2", "-newer%s%s" % (x, y)))
            tests.append(["-cnewer", "ref2"])
            specs.append(("c", "m", "ref2", "-cnewer"))
            for (x, y) in (("a", "a"), ("a", "m"), ("m", "a"), ("m", "m")):
                tests.append(["-newer%s%s" % (x, y), "oldref"])
                specs.append((x, y, "oldref", "-newer%s%s" % (x, y)))
            for nm, (x, y) in (("-newer", ("m", "m")), ("-anewer", ("a", "m"))):
                tests.append([nm, "oldref"])
                specs.append((x, y, "oldref", nm))
            for (x, y) in XY:
                tests.append(["-newer%s%s" % (x, y), "d/ref3"])
                specs.append((x, y, "d/ref3", "-newer%s%s" % (x, y)))
            for nm, (x, y) in (("-newer", ("m", "m")), ("-anewer", ("a", "m")), ("-cnewer", ("c", "m"))):
                tests.append([nm, rng.choice(["d/ref3", "d/ref3.lnk"])])
                specs.append((x, y, "d/ref3", nm))
            # a reference that is a symbolic link with time stamps of its own: under -P "F's time stamp" is the link's, under -H/-L the
            # target's - for -newer and for every -newerXY alike (they are the same test by definition)
            lref = os.path.join(sb, "lref")
            os.symlink("ref", lref)
            la = rts["a"] + rng.choice([-7, 5]) * NS
            lm = rts["m"] + rng.choice([-3, 11]) * NS
            os.utime(lref, ns=(la, lm), follow_symlinks=False)
            lr = os.lstat(lref)
            follow = rng.choice([None, None, "-L", "-H"])
            lkey = "lref(link itself)" if follow is None else "lref(followed)"
            if follow == "-L":
                lst = {f: os.stat(os.path.join(sb, f)) for f in files}
            st.inc("evaluations_of_links_with_time_stamps_of_their_own:" + (follow or "-P"), 3)
            for nm, (x, y) in (("-newer", ("m", "m")), ("-newermm", ("m", "m")), ("-neweram", ("a", "m")), ("-anewer", ("a", "m")), ("-newerma", ("m", "a")),
                               ("-cnewer", ("c", "m"))):
                tests.append([nm, "lref"])
                specs.append((x, y, lkey, nm))
            args = ["find"] + ([follow] if follow else []) + ["d", "-mindepth", "1", "-sorted"] + lbl.label_args(tests)
            res = common.run_find_inproc([("c", args, 0)], sb, sb)["c"]
            st.inc("runs_with_link_reference:" + (follow or "-P"))
            refs = {"lref(link itself)": {"a": lr.st_atime_ns, "m": lr.st_mtime_ns, "c": lr.st_ctime_ns},
                    "lref(followed)": {"a": rst.st_atime_ns, "m": rst.st_mtime_ns, "c": rst.st_ctime_ns},
                    "ref": {"a": rst.st_atime_ns, "m": rst.st_mtime_ns, "c": rst.st_ctime_ns},
                    "ref2": {"a": r2.st_atime_ns, "m": r2.st_mtime_ns, "c": r2.st_ctime_ns},
                    "d/ref3": {"a": r3.st_atime_ns, "m": r3.st_mtime_ns, "c": r3.st_ctime_ns},
                    "oldref": {"a": ro.st_atime_ns, "m": ro.st_mtime_ns, "c": ro.st_ctime_ns}}
            rp = {"args": args, "refs": refs, "files": {f: {"a": lst[f].st_atime_ns, "m": lst[f].st_mtime_ns, "c": lst[f].st_ctime_ns} for f in files}}
            st.inc("runs")
            if res.special or res.panic or res.code != 0:
                st.violate("failed-run", None, {"args": args, "panic": res.panic, "special": res.special, "exit": res.code, "stderr": res.fd2[-200:]}, rp)
                common.force_rmtree(sb)
                continue
            sel = lbl.parse(res.out, len(tests))
            if sel is None:
                st.violate("garbled-output", None, {"args": args, "out": res.out[:200]}, rp)
                common.force_rmtree(sb)
                continue
            for (x, y, rname, spelled), got in zip(specs, sel):
                ry = refs[rname][y]
                st.add("distinct", (spelled, rname))
                got = set(got)
                for f in files:
                    ex = ts(lst[f], x)
                    want = ex > ry
                    st.inc("evaluations")
                    st.inc("xy:%s%s" % (x, y))
                    if abs(ex - ry) <= 1:
                        st.inc("evaluations_within_1ns")
                        st.add("boundary_cells", (x, y, ex - ry))
                    # is this evaluation discriminating? (would another choice of X or Y give a different answer)
                    alt = set((ts(lst[f], x2) > refs[rname][y2]) for x2 in "acm" for y2 in "acm")
                    if len(alt) > 1:
                        st.inc("discriminating_evaluations")
                    if rname == "oldref" and ex < 0:
                        st.inc("evaluations_with_both_time_stamps_before_1970")
                    if rname == "d/ref3" and f.startswith("d/ref3"):
                        st.inc("evaluations_of_the_reference_file_itself")
                    if (f in got) != want:
                        st.violate("wrong-newer", None, {"test": [spelled, rname], "X": x, "Y": y, "file": f, "entry_X_ns": ex, "ref_Y_ns": ry,
                                                         "expected": want, "find": f in got}, rp)
            if run % 5 == 0:
                st.sample({"tests": [t for t in tests[:3]], "ref": refs["ref"]})
            common.force_rmtree(sb)
    finally:
        common.force_rmtree(base)
    return st


def run(ctx):
    ctx.rule = ("(ages) runs with 8-20 files whose atime and mtime are set independently to now - (k*period + e), period in {day, minute}, "
                "k in {0,1,2,3,5,30,400}, e in {0, +-1ns, +-1ms, +-1s, half}; in half of the runs `now` is placed k*period + e after a ctime read "
                "back from the file system; all six -Xtime/-Xmin tests with N, +N, -N around every file's value. (newer) reference files with "
                "three different timestamps, entries whose atime or mtime is Y(ref)-1ns, Y(ref), Y(ref)+1ns (also +-1us, +-1s), second "
                "reference placed around an entry's ctime, third reference inside the walked tree (with a hard link to it); all nine "
                "-newerXY, -newer, -anewer, -cnewer. distinct = (test, operand)")
    ctx.assumptions = ["integer ns arithmetic on os.lstat records", "clock injected through Dependencies::now() (in-process harness)",
                       "-daystart, -newerXt and birth time not judged; ages >= 0"]
    nw = common.NCPU
    n = ctx.scale(320, 72000)
    ctx.pmap(age_worker, [(k, n // nw, ctx.seed) for k in range(nw)])
    n2 = ctx.scale(160, 24000)
    ctx.pmap(newer_worker, [(k, n2 // nw, ctx.seed) for k in range(nw)])
    ctx.pmap(clock_worker, [(k, 1 if ctx.quick else 12, ctx.seed) for k in range(nw)])
    ctx.require("clock_runs_in_which_the_age_crossed_the_boundary_during_the_pause", 1)
    for key in ("kind:-atime", "kind:-ctime", "kind:-mmin", "kind:-cmin", "boundary_evaluations", "runs_with_ctime_boundary", "xy:ac", "xy:ca",
                "xy:cc", "xy:mm", "evaluations_within_1ns", "discriminating_evaluations"):
        ctx.require(key, 5)
