"""Independent POSIX pattern matcher (XCU 2.13 / fnmatch without flags), written from the text of the standard and of
property C12. It *refuses* (raises Unsupported) every pattern outside the grammar the property statement describes, so
that it can only ever be used where its answer is unambiguous.

Grammar accepted:
    '*'  any string (incl. '/', leading '.', newline)      '?'  any one character
    '\\c' the character c literally; a lone trailing backslash makes the pattern match nothing
    '[' ... ']' bracket expression: optional '!' negation, optional leading ']' literal, then members:
         single characters, ranges a-b with alphanumeric ASCII endpoints (a <= b), classes [:alpha:] [:digit:]
         [:upper:] [:lower:] [:alnum:] [:space:] [:punct:] [:xdigit:] [:blank:] [:cntrl:] [:print:] [:graph:]; '-' literal when
         first or last; '[' not followed by ':', '.', '=' is a literal member
    '[' without a matching ']' is a literal '['
Refused: '[^', backslash inside a bracket expression, '-' in the middle that is not a range of alphanumerics,
collating symbols / equivalence classes, unknown or unterminated class names, [:upper:]/[:lower:] when case folding.
"""
import functools

CLASSES = {
    "alpha": lambda c: c.isascii() and c.isalpha(),
    "digit": lambda c: c in "0123456789",
    "upper": lambda c: c.isascii() and c.isupper(),
    "lower": lambda c: c.isascii() and c.islower(),
    "alnum": lambda c: c.isascii() and c.isalnum(),
    "space": lambda c: c in " \t\n\r\f\v",
    "blank": lambda c: c in " \t",
    "punct": lambda c: c.isascii() and 33 <= ord(c) <= 126 and not c.isalnum(),
    "xdigit": lambda c: c in "0123456789abcdefABCDEF",
    "cntrl": lambda c: ord(c) < 32 or ord(c) == 127,
    "print": lambda c: 32 <= ord(c) <= 126,
    "graph": lambda c: 33 <= ord(c) <= 126,
}


class Unsupported(Exception):
    pass


def _alnum(c):
    return c.isascii() and c.isalnum()


def _parse_bracket(p, i, casefold):
    """p[i] == '['. Returns (token, next index) or None when there is no bracket expression here (literal '[')."""
    n = len(p)
    j = i + 1
    neg = False
    if j < n and p[j] == "!":
        neg = True
        j += 1
    elif j < n and p[j] == "^":
        raise Unsupported("[^")
    members = []   # ('c', ch) | ('r', lo, hi) | ('k', name)
    first = True
    while True:
        if j >= n:
            return None          # unterminated: '[' is literal
        c = p[j]
        if c == "]" and not first:
            j += 1
            break
        first = False
        if c == "\\":
            raise Unsupported("backslash in bracket")
        if c == "[" and j + 1 < n and p[j + 1] in ":.=":
            d = p[j + 1]
            if d != ":":
                raise Unsupported("collating / equivalence")
            e = p.find(":]", j + 2)
            if e < 0:
                raise Unsupported("unterminated class")
            name = p[j + 2:e]
            if name not in CLASSES:
                raise Unsupported("unknown class")
            if casefold and name in ("upper", "lower"):
                raise Unsupported("case class under folding")
            members.append(("k", name))
            j = e + 2
            # a class cannot be a range endpoint
            if j < n and p[j] == "-" and j + 1 < n and p[j + 1] != "]":
                raise Unsupported("range from class")
            continue
        if c == "-":
            # literal when first (members empty) or last (next is the closing bracket)
            if not members or (j + 1 < n and p[j + 1] == "]"):
                members.append(("c", "-"))
                j += 1
                continue
            if j + 1 >= n:
                return None
            raise Unsupported("dash in the middle")
        # ordinary character; maybe the start of a range
        if j + 2 < n and p[j + 1] == "-" and p[j + 2] != "]":
            hi = p[j + 2]
            if hi == "[" or hi == "\\":
                raise Unsupported("odd range endpoint")
            if not (_alnum(c) and _alnum(hi)) or c > hi:
                raise Unsupported("non-alphanumeric or reversed range")
            # ranges mixing categories (e.g. 9-a, A-z) are locale dependent
            cat = lambda x: 0 if x.isdigit() else (1 if x.isupper() else 2)
            if cat(c) != cat(hi):
                raise Unsupported("range across categories")
            members.append(("r", c, hi))
            j += 3
            # "a-c-e" is undefined
            if j < n and p[j] == "-" and j + 1 < n and p[j + 1] != "]":
                raise Unsupported("chained range")
            continue
        if j + 1 < n and p[j + 1] == "-" and j + 2 >= n:
            return None
        members.append(("c", c))
        j += 1
    return ("set", neg, tuple(members)), j


def parse(p, casefold=False):
    """-> list of tokens, or None if the pattern can match nothing (lone trailing backslash)."""
    toks = []
    i, n = 0, len(p)
    while i < n:
        c = p[i]
        if c == "*":
            toks.append(("star",))
            i += 1
        elif c == "?":
            toks.append(("any",))
            i += 1
        elif c == "\\":
            if i + 1 >= n:
                return None
            toks.append(("lit", p[i + 1]))
            i += 2
        elif c == "[":
            r = _parse_bracket(p, i, casefold)
            if r is None:
                toks.append(("lit", "["))
                i += 1
            else:
                toks.append(r[0])
                i = r[1]
        else:
            toks.append(("lit", c))
            i += 1
    return toks


def _fold(c):
    # ASCII-only folding: non-ASCII case pairs are locale dependent and are filtered by the caller
    return c.lower() if c.isascii() else c


def _in_set(tok, c, casefold):
    _, neg, members = tok
    cands = [c]
    if casefold and c.isascii() and c.isalpha():
        cands = [c.lower(), c.upper()]
    hit = False
    for m in members:
        for x in cands:
            if m[0] == "c":
                if m[1] == x:
                    hit = True
            elif m[0] == "r":
                if m[1] <= x <= m[2]:
                    hit = True
            else:
                if CLASSES[m[1]](x):
                    hit = True
    return hit != neg


def match_tokens(toks, s, casefold=False):
    if toks is None:
        return False
    nt, ns = len(toks), len(s)

    @functools.lru_cache(maxsize=None)
    def m(ti, si):
        while ti < nt:
            t = toks[ti]
            k = t[0]
            if k == "star":
                # collapse consecutive stars
                while ti + 1 < nt and toks[ti + 1][0] == "star":
                    ti += 1
                if ti + 1 == nt:
                    return True
                for k2 in range(si, ns + 1):
                    if m(ti + 1, k2):
                        return True
                return False
            if si >= ns:
                return False
            c = s[si]
            if k == "any":
                pass
            elif k == "lit":
                if casefold:
                    if _fold(t[1]) != _fold(c):
                        return False
                elif t[1] != c:
                    return False
            else:
                if not _in_set(t, c, casefold):
                    return False
            ti += 1
            si += 1
        return si == ns

    return m(0, 0)


def fnmatch(pattern, subject, casefold=False):
    """True / False; raises Unsupported."""
    return match_tokens(parse(pattern, casefold), subject, casefold)


def features(pattern):
    """Coarse feature tags of a pattern (for coverage counters)."""
    f = set()
    try:
        toks = parse(pattern)
    except Unsupported:
        return {"unsupported"}
    if toks is None:
        return {"trailing-backslash"}
    for t in toks:
        f.add(t[0])
        if t[0] == "set":
            if t[1]:
                f.add("negated-set")
            for m in t[2]:
                f.add({"c": "set-char", "r": "set-range", "k": "set-class"}[m[0]])
                if m[0] == "c" and m[1] in "[]-!":
                    f.add("set-special-literal")
        if t[0] == "lit" and t[1] in ".^$+(){}|":
            f.add("regex-meta-literal")
        if t[0] == "lit" and t[1] == "[":
            f.add("stray-open-bracket")
        if t[0] == "lit" and t[1] in "]!":
            f.add("stray-close-or-bang")
    if "\\" in pattern:
        f.add("escape")
    return f


SELF_TABLE = [
    ("a*c", "abbbc", True), ("a*c", "abbbcd", False), ("*", "", True), ("?", "", False), ("?", "/", True), ("*", ".h/x\ny", True),
    ("[abc]", "b", True), ("[!abc]", "b", False), ("[!abc]", "d", True), ("[]]", "]", True), ("[]a]", "a", True), ("[!]]", "]", False),
    ("[a-c]", "b", True), ("[a-c]", "d", False), ("[a-]", "-", True), ("[-a]", "-", True), ("[[:digit:]]", "7", True),
    ("[[:alpha:]x]", "x", True), ("[[:alpha:]]", "1", False), ("[", "[", True), ("[a", "[a", True), ("a[", "a[", True),
    ("\\*", "*", True), ("\\*", "a", False), ("a\\", "a", False), ("a\\", "a\\", False), ("\\\\", "\\", True), ("[[]", "[", True),
    ("[[]*", "[a", True), ("[a[]", "[", True), ("x.y", "xzy", False), ("x^$+(){}|y", "x^$+(){}|y", True), ("ab", "abc", False),
    ("ab", "xab", False), ("*b", "ab", True), ("]", "]", True), ("!", "!", True), ("[!", "[!", True), ("[]", "[]", True),
    ("[!]", "[!]", True), ("[[:punct:]]", "+", True), ("[[:punct:]]", "a", False), ("**a", "a", True), ("*?", "", False),
]


def self_check():
    bad = []
    for p, s, want in SELF_TABLE:
        try:
            got = fnmatch(p, s)
        except Unsupported:
            got = "unsupported"
        if got != want:
            bad.append((p, s, want, got))
    for p in ("[^a]", "[a\\]]", "[a-c-e]", "[--0]", "[[.a.]]", "[[=a=]]", "[[:foo:]]", "[[:al", "[%-+]", "[z-a]", "[9-a]"):
        try:
            fnmatch(p, "a")
            # patterns without closing bracket are literal, others must be refused
            if "]" in p:
                bad.append((p, "a", "unsupported", "answered"))
        except Unsupported:
            pass
    return bad
