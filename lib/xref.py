"""Reference models for xargs: input tokenizer (C04/C05/C20), batching invariants (C04), exit status (C19),
plus helpers to run the real xargs binary with the recorder as its command."""
import os
import zlib

import common

BLANKS = b" \t"


class TokResult:
    __slots__ = ("tokens", "error", "empty_token", "newline_in_quote", "trailing_backslash", "other_ws")

    def __init__(self):
        self.tokens = []          # list of (bytes, hard)
        self.error = None
        self.empty_token = False
        self.newline_in_quote = False
        self.trailing_backslash = False
        self.other_ws = False

    @property
    def in_domain(self):
        return not (self.empty_token or self.newline_in_quote or self.trailing_backslash or self.other_ws)

    @property
    def in_domain_apart_from_other_ws(self):
        return not (self.empty_token or self.newline_in_quote or self.trailing_backslash)


def tokenize(data, extra_seps=b""):
    """Default-mode splitting as the statement describes it: blanks and newlines separate, '..' and ".." are
    literal, backslash quotes the next byte, a token exists iff some byte or quote contributed to it, a token is
    'hard' iff it is directly followed by a newline. extra_seps: further bytes read as blanks (the statement says "blanks";
    whether CR and FF count is a ctype question it leaves open - callers may accept either reading)."""
    r = TokResult()
    cur = bytearray()
    have = False
    q = None
    esc = False
    for c in data:
        ch = bytes([c])
        if esc:
            cur += ch
            esc = False
            have = True
        elif q is not None:
            if c == q:
                q = None
            else:
                if ch == b"\n":
                    r.newline_in_quote = True
                cur += ch
        elif ch in (b"'", b'"'):
            q = c
            have = True
        elif ch == b"\\":
            esc = True
            have = True
        elif ch in (b" ", b"\t", b"\n") or c in extra_seps:
            if have:
                if not cur:
                    r.empty_token = True
                r.tokens.append((bytes(cur), ch == b"\n"))
                cur = bytearray()
                have = False
        else:
            if ch in (b"\r", b"\f", b"\v", b"\0"):
                r.other_ws = True
            cur += ch
            have = True
    if q is not None:
        r.error = "unterminated quote"
        return r
    if esc:
        r.trailing_backslash = True
    if have:
        if not cur:
            r.empty_token = True
        r.tokens.append((bytes(cur), False))
    return r


def split_delim(data, d):
    return [(f, True) for f in data.split(bytes([d])) if f]


# ------------------------------------------------------------------------------------------
# running the real binary


def read_reclog(path, compact=False):
    """-> list of (cwd, argv) ; compact: list of (cwd, (argc, bytes, chain, maxlen))"""
    out = []
    try:
        with open(path, "rb") as f:
            for line in f:
                fs = line.rstrip(b"\n").split(b"\t")
                cwd = bytes.fromhex(fs[1].decode())
                if len(fs) > 2 and fs[2] == b"C":
                    out.append((cwd, tuple(int(x) for x in fs[3:7])))
                else:
                    out.append((cwd, [bytes.fromhex(x.decode()) for x in fs[2:]]))
    except FileNotFoundError:
        pass
    return out


def chain(args):
    c = 0
    for b in args:
        c = zlib.crc32(len(b).to_bytes(4, "little"), c)
        c = zlib.crc32(b, c)
    return c


class XRun:
    __slots__ = ("rc", "err", "out", "invocations", "timed_out")


def run_xargs(workdir, opts, initial, data, script=None, fn=None, compact=False, env_extra=None, timeout=60,
              chunks=None, preexec_fn=None, cmd=None, tag="x"):
    """Run `xargs OPTS REC INITIAL...` with `data` on stdin. chunks: list of byte strings written one at a time."""
    log = os.path.join(workdir, "rec-%s.log" % tag)
    for p in (log, log + ".n"):
        if os.path.exists(p):
            os.unlink(p)
    env = common.clean_env({"VERIF_REC_LOG": log})
    if script is not None:
        env["VERIF_REC_SCRIPT"] = script
    if fn is not None:
        env["VERIF_REC_FN"] = fn
    if compact:
        env["VERIF_REC_MODE"] = "compact"
    if env_extra:
        env.update(env_extra)
    argv = [common.XARGS] + list(opts) + ([common.REC] if cmd is None else cmd) + list(initial)
    r = XRun()
    if chunks is None:
        rc, out, err, to = common.run_cmd(argv, input=data, env=env, cwd=workdir, timeout=timeout, preexec_fn=preexec_fn)
    else:
        import subprocess
        import time
        import signal
        p = subprocess.Popen(argv, stdin=subprocess.PIPE, stdout=subprocess.PIPE, stderr=subprocess.PIPE, env=env,
                             cwd=workdir, start_new_session=True)
        to = False
        try:
            for ch in chunks:
                try:
                    os.write(p.stdin.fileno(), ch)
                except BrokenPipeError:
                    break
                time.sleep(0.003)
            try:
                p.stdin.close()
            except BrokenPipeError:
                pass
            p.stdin = None
            out, err = p.communicate(timeout=timeout)
        except subprocess.TimeoutExpired:
            os.killpg(p.pid, signal.SIGKILL)
            out, err = p.communicate()
            to = True
        rc = p.returncode
    r.rc, r.out, r.err, r.timed_out = rc, out, err, to
    r.invocations = read_reclog(log, compact)
    return r
