"""C12 — -name/-path/-lname (and -i forms) are true exactly when POSIX fnmatch() matches the whole string.

Monitor: the real matcher objects (build_top_level_matcher + Matcher::matches on WalkEntry, in-process; real symlinks for
-lname; the find binary on real files for a sample) are run on generated (pattern, subject) pairs; the deciding oracle is
the conjunction of two independent oracles that must agree: glibc fnmatch(3) (C.UTF-8 and C locale) and lib/posixfn.py.
A pair is judged only where all three oracle answers coincide; everything else is counted as out of domain."""
import itertools
import os

import common
import fnm
import posixfn
from common import Stats

PAT_ALPHA = ["a", "b", "*", "?", "[", "]", "!", "\\", "-", "."]
SUB_ALPHA = ["a", "b", ".", "[", "]", "!", "-", "\\", "*", "A"]

KINDS = ["-name", "-iname", "-path", "-ipath", "-wholename", "-iwholename"]
PUNCT_ONIG_MISSES = set("+$^|<>=~`")


def all_strings(alpha, maxlen):
    for n in range(maxlen + 1):
        for t in itertools.product(alpha, repeat=n):
            yield "".join(t)


def oracle_row(pattern, subjects, casefold):
    """-> list of True/False/None (None = out of domain) for each subject, plus reason counter."""
    try:
        toks = posixfn.parse(pattern, casefold)
    except posixfn.Unsupported:
        return None
    fnm.set_locale("C.UTF-8")
    g1 = [fnm.fnmatch(pattern, s, casefold) for s in subjects]
    fnm.set_locale("C")
    g2 = [fnm.fnmatch(pattern, s, casefold) for s in subjects]
    out = []
    has_class = "[:" in pattern

    def nonascii_cased(t):
        return any((not c.isascii()) and c.lower() != c.upper() for c in t)
    pat_cased = casefold and nonascii_cased(pattern)
    for s, a, b in zip(subjects, g1, g2):
        if a != b:
            out.append(None)
            continue
        if casefold and (pat_cased or nonascii_cased(s)):
            # which non-ASCII letters fold together is a property of the locale (the C locale folds none)
            out.append(None)
            continue
        if has_class and not s.isascii():
            # whether a non-ASCII character belongs to [:alpha:] etc. is a property of the locale, not of the statement
            out.append(None)
            continue
        p = posixfn.match_tokens(toks, s, casefold)
        out.append(a if p == a else None)
    return out


def subject_path(kind, s):
    """Path text handed to WalkEntry::new so that the test's subject is s; None if s is not usable for this kind."""
    if kind in ("-name", "-iname"):
        if s in ("", ".", "..") or "/" in s:
            return None
        return "d/" + s
    return s


def known_sig(kind, pattern, subject, want, got):
    """Signature string for known-finding matching (see known_findings.json)."""
    return None


def judge(st, kind, pattern, subjects, status, bits, rp_extra=None):
    casefold = kind[1] == "i"
    st.inc("patterns")
    if status == "err":
        # the matcher could not even be built: for a supported pattern that is a refusal to answer
        try:
            posixfn.parse(pattern, casefold)
        except posixfn.Unsupported:
            st.inc("out_of_domain_patterns")
            return
        st.violate("pattern-rejected", None, {"test": kind, "pattern": pattern, "error": bits}, {"test": kind, "pattern": pattern})
        return
    row = oracle_row(pattern, subjects, casefold)
    if status == "panic" or "P" in (bits or ""):
        st.inc("panics_seen")
        if row is not None:
            st.violate("panic", None, {"test": kind, "pattern": pattern, "panic": rp_extra}, {"test": kind, "pattern": pattern,
                                                                                             "subjects": subjects[:20]})
        else:
            st.notes.append("panic on out-of-domain pattern %r (left to C11): %s" % (pattern, rp_extra))
        return
    if row is None:
        st.inc("out_of_domain_patterns")
        st.inc("out_of_domain_pairs", len(subjects))
        return
    for f in posixfn.features(pattern):
        st.inc("feature:" + f)
    st.add("distinct", (casefold, pattern))
    for s, want, b in zip(subjects, row, bits):
        if want is None:
            st.inc("out_of_domain_pairs")
            continue
        got = b == "1"
        st.inc("evaluations")
        st.inc("pairs_matching" if want else "pairs_not_matching")
        if got != want:
            sig = None
            if want and not got and "[:punct:]" in pattern and any(c in PUNCT_ONIG_MISSES for c in s):
                sig = "punct-class-ascii-symbol"
            st.violate("fnmatch-mismatch", sig, {"test": kind, "pattern": pattern, "subject": s, "fnmatch": want, "find": got},
                       {"test": kind, "pattern": pattern, "subject": s})


def run_rows(st, base, kind, rows, follow="P", depth=1, cwd=None):
    """rows: list of (pattern, subjects). Executes through vh match and judges."""
    lines = []
    meta = {}
    for i, (pattern, subjects) in enumerate(rows):
        usable = [(s, subject_path(kind, s)) for s in subjects]
        usable = [(s, p) for s, p in usable if p is not None]
        if not usable:
            continue
        cid = "m%d" % i
        meta[cid] = (pattern, [s for s, _ in usable])
        lines.append("\t".join([cid, follow, str(depth), "2", common.hx(kind), common.hx(pattern)] + [common.hx(p) for _, p in usable]))
    res = common.run_vh("match", lines, base, cwd=cwd or base, per_case_timeout=60)
    for cid, (pattern, subs) in meta.items():
        r = res.get(cid)
        if r is None or r[0] in ("HANG", "CRASH"):
            st.violate("hang-or-crash", None, {"test": kind, "pattern": pattern, "result": r}, {"test": kind, "pattern": pattern})
            continue
        status, msg, bits = r[0], common.unhx(r[1]).decode("utf-8", "replace"), (r[2] if len(r) > 2 else "")
        judge(st, kind, pattern, subs, status, bits if status == "ok" else msg, rp_extra=msg)


# ------------------------------------------------------------------------------------------
# workloads


def exhaustive_worker(job):
    k, nw, plen, slen, seed = job
    st = Stats()
    base = common.mkscratch("C12x%d" % k)
    try:
        subjects = list(all_strings(SUB_ALPHA, slen))
        pats = [p for i, p in enumerate(all_strings(PAT_ALPHA, plen)) if i % nw == k]
        for kind in ("-name", "-iname", "-path", "-ipath"):
            run_rows(st, base, kind, [(p, subjects) for p in pats])
            st.inc("exhaustive_patterns:" + kind, len(pats))
    finally:
        common.force_rmtree(base)
    return st


LIT_POOL = list("abcxyzABZ019") + list(".^$+(){}|") + list(" ,;:@#%&=~_'\"<>`/") + ["\n", "é", "ü", "日", "-", "!", "]"]
CLASS_NAMES = ["alpha", "digit", "upper", "lower", "alnum", "space", "punct"]


def rand_bracket(rng):
    parts = ["["]
    if rng.random() < 0.3:
        parts.append("!")
    if rng.random() < 0.15:
        parts.append("]")
    if rng.random() < 0.1:
        parts.append("-")
    for _ in range(rng.randint(1, 4)):
        r = rng.random()
        if r < 0.45:
            parts.append(rng.choice(list("abcxyzABZ019.^$*?+(){}|/_ ,!") + ["[", "é"]))
        elif r < 0.7:
            lo, hi = sorted(rng.sample(rng.choice(["abcdefxyz", "ABCDXYZ", "0123456789"]), 2))
            parts.append(lo + "-" + hi)
        else:
            parts.append("[:" + rng.choice(CLASS_NAMES) + ":]")
    if rng.random() < 0.15:
        parts.append("-")
    parts.append("]")
    return "".join(parts)


def rand_pattern(rng):
    """Returns (pattern, sampler) where sampler(rng) gives a string intended to match."""
    items = []
    for _ in range(rng.randint(1, 7)):
        r = rng.random()
        if r < 0.35:
            items.append(("lit", rng.choice(LIT_POOL)))
        elif r < 0.5:
            items.append(("star",))
        elif r < 0.6:
            items.append(("any",))
        elif r < 0.72:
            items.append(("esc", rng.choice(list("*?[]\\!-.ab^$") + ["é"])))
        elif r < 0.92:
            items.append(("br", rand_bracket(rng)))
        elif r < 0.96:
            items.append(("raw", rng.choice(["[", "]", "!", "[!", "[a", "[]", "[a-", "[[:alpha:]"])))
        else:
            items.append(("raw", rng.choice(["[[]", "[a[]", "[![]", "[[]]"])))
    if rng.random() < 0.04:
        items.append(("raw", "\\"))
    pat = "".join({"lit": lambda i: i[1], "star": lambda i: "*", "any": lambda i: "?", "esc": lambda i: "\\" + i[1],
                   "br": lambda i: i[1], "raw": lambda i: i[1]}[i[0]](i) for i in items)
    return pat, items


SUBJ_CHARS = list("abcxyzABZ019.^$*?+(){}|/_ ,![]-\\") + ["\n", "é", "ü", "日", ":", "~", "`", "<", "=", ">", "'", "@", "#"]


def sample_subject(rng, items):
    out = []
    for it in items:
        k = it[0]
        if k in ("lit", "esc"):
            out.append(it[1])
        elif k == "star":
            out.append("".join(rng.choice(SUBJ_CHARS) for _ in range(rng.choice([0, 0, 1, 2, 3]))))
        elif k == "any":
            out.append(rng.choice(SUBJ_CHARS))
        elif k == "br":
            # try to find a member by sampling
            try:
                tok = posixfn.parse(it[1])
            except posixfn.Unsupported:
                tok = None
            c = None
            if tok and len(tok) == 1 and tok[0][0] == "set":
                for _ in range(30):
                    x = rng.choice(SUBJ_CHARS)
                    if posixfn._in_set(tok[0], x, False):
                        c = x
                        break
            out.append(c if c is not None else rng.choice(SUBJ_CHARS))
        else:
            out.append(it[1])
    return "".join(out)


def mutate_subject(rng, s):
    r = rng.random()
    if r < 0.2 and s:
        return s[:-1]
    if r < 0.4 and s:
        return s[1:]
    if r < 0.55:
        return s + rng.choice(SUBJ_CHARS)
    if r < 0.7:
        return rng.choice(SUBJ_CHARS) + s
    if r < 0.85 and s:
        i = rng.randrange(len(s))
        return s[:i] + rng.choice(SUBJ_CHARS) + s[i + 1:]
    if s:
        return s.swapcase()
    return "a"


def random_worker(job):
    k, npat, seed = job
    st = Stats()
    rng = common.rng_for(seed, "C12r", k)
    base = common.mkscratch("C12r%d" % k)
    try:
        for kind in KINDS:
            rows = []
            for _ in range(npat // len(KINDS)):
                pat, items = rand_pattern(rng)
                subs = set()
                for _ in range(6):
                    s = sample_subject(rng, items)
                    subs.add(s)
                    for _ in range(3):
                        subs.add(mutate_subject(rng, s))
                subs.add("".join(rng.choice(SUBJ_CHARS) for _ in range(rng.randint(0, 5))))
                subs = [s for s in subs if "\0" not in s]
                rows.append((pat, sorted(subs)))
            run_rows(st, base, kind, rows)
            st.inc("random_patterns:" + kind, len(rows))
    finally:
        common.force_rmtree(base)
    return st


def pair_worker(job):
    """One expression containing the SAME pattern text in a case-sensitive and in a case-folding test (find . -iname readme ! -name
    readme): each test keeps its own case handling whatever stands before it."""
    k, npat, seed = job
    st = Stats()
    rng = common.rng_for(seed, "C12pair", k)
    base = common.mkscratch("C12p%d" % k)
    try:
        lines, meta = [], {}
        for i in range(npat):
            pat, items = rand_pattern(rng)
            cs, ci = rng.choice([("-name", "-iname"), ("-path", "-ipath"), ("-name", "-iname"), ("-wholename", "-iwholename")])
            subs = set()
            for _ in range(5):
                s0 = sample_subject(rng, items)
                subs |= {s0, s0.swapcase(), s0.upper(), s0.lower(), mutate_subject(rng, s0)}
            usable = [(s_, subject_path(cs, s_)) for s_ in sorted(subs) if "\0" not in s_]
            usable = [(s_, p_) for s_, p_ in usable if p_ is not None]
            if not usable:
                continue
            form = rng.choice(["cs-or-ci", "ci-or-cs", "ci-and-not-cs", "cs-and-not-ci", "not-cs-and-ci"])
            args = {"cs-or-ci": [cs, pat, "-o", ci, pat], "ci-or-cs": [ci, pat, "-o", cs, pat], "ci-and-not-cs": [ci, pat, "!", cs, pat],
                    "cs-and-not-ci": [cs, pat, "!", ci, pat], "not-cs-and-ci": ["!", cs, pat, ci, pat]}[form]
            cid = "p%d" % i
            meta[cid] = (pat, cs, ci, form, args, [s_ for s_, _ in usable])
            lines.append("\t".join([cid, "P", "1", str(len(args))] + [common.hx(a) for a in args] + [common.hx(p_) for _, p_ in usable]))
        res = common.run_vh("match", lines, base, cwd=base, per_case_timeout=60)
        for cid, (pat, cs, ci, form, args, subs) in meta.items():
            r = res.get(cid)
            if r is None or r[0] in ("HANG", "CRASH", "panic"):
                row_chk = oracle_row(pat, subs, False)
                if row_chk is not None:
                    st.violate("panic" if r and r[0] == "panic" else "hang-or-crash", None, {"args": args, "result": r}, {"args": args})
                continue
            if r[0] != "ok":
                continue                                   # rejected patterns are the single-test workloads' business
            row_s, row_i = oracle_row(pat, subs, False), oracle_row(pat, subs, True)
            if row_s is None or row_i is None:
                st.inc("out_of_domain_patterns")
                continue
            st.inc("pair_expressions")
            st.inc("pair_form:" + form)
            for s_, ws, wi, b in zip(subs, row_s, row_i, r[2]):
                if ws is None or wi is None:
                    st.inc("out_of_domain_pairs")
                    continue
                want = {"cs-or-ci": ws or wi, "ci-or-cs": wi or ws, "ci-and-not-cs": wi and not ws, "cs-and-not-ci": ws and not wi,
                        "not-cs-and-ci": (not ws) and wi}[form]
                st.inc("evaluations")
                if ws != wi:
                    st.inc("pair_evaluations_where_the_two_modes_differ")
                if (b == "1") != want:
                    st.violate("fnmatch-mismatch", None, {"args": args, "subject": s_, "case_sensitive_fnmatch": ws, "case_folding_fnmatch": wi,
                                                          "expected": want, "find": b == "1"}, {"args": args, "subject": s_})
    finally:
        common.force_rmtree(base)
    return st


def long_subject_worker(job):
    """Patterns with three '*' against names of 60-120 characters that DO match, but only through an early split point: a few
    thousand to a few hundred thousand backtracking steps, far below anything an engine may legitimately give up on."""
    k, nrows, seed = job
    st = Stats()
    rng = common.rng_for(seed, "C12long", k)
    base = common.mkscratch("C12l%d" % k)
    try:
        for kind in ("-name", "-iname", "-path"):
            rows = []
            for _ in range(nrows):
                a, b, c = rng.sample(["a", "b", "c", "x", "yz", "_"], 3)
                pat = rng.choice(["*%s*%s*%s%s*" % (a, b, b, c), "*[%s]*[%s]*[%s]*" % (a, b, c), "%s*%s*%s*%s" % (a, b, c, a), "*%s?*%s?*%s" % (a, b, c),
                                  "*%s*%s*%s" % (a, b, c)])
                subs = set()
                for _ in range(4):
                    tail_ = "".join(rng.choice([a, b, a + b]) for _ in range(rng.randint(40, 70)))
                    head_ = a + b + b + c
                    subs |= {head_ + tail_, tail_ + head_, (a + tail_ + c + a)[:120], tail_[:100], a + tail_ + b + c + a}
                rows.append((pat, sorted(s_ for s_ in subs if len(s_) <= 130)))
            # bracket expressions of 60-130 bytes (plain and negated): still bracket expressions
            import string
            for _ in range(max(2, nrows // 3)):
                members = "".join(rng.sample(string.ascii_letters + string.digits + "._-", rng.randint(58, 64)))
                extra = rng.choice(["", "[:digit:]", "a-f", "[:upper:][:punct:]"])
                br = "[" + rng.choice(["", "!"]) + members + extra + "]"
                pat = rng.choice([br, "x" + br + "y", br + "*", "*" + br])
                subs = [c_ for c_ in "aZ5._-xQ%"] + ["x%sy" % c_ for c_ in "aZ5.%"] + ["a" * 3, "", "ab"]
                rows.append((pat, subs))
            run_rows(st, base, kind, rows)
            st.inc("long_subject_rows:" + kind, len(rows))
    finally:
        common.force_rmtree(base)
    return st


def lname_worker(job):
    """-lname/-ilname on real symbolic links whose target text is the subject; also checks that the subject is the
    target and not the link's own name, and runs the same patterns through the find binary with -name on real files."""
    k, npat, seed = job
    st = Stats()
    rng = common.rng_for(seed, "C12l", k)
    base = common.mkscratch("C12l%d" % k)
    try:
        for rnd in range(max(1, npat // 40)):
            sb = os.path.join(base, "s%d" % rnd)
            os.makedirs(os.path.join(sb, "links"))
            os.makedirs(os.path.join(sb, "files"))
            rows = []
            subjects = []
            for _ in range(40):
                pat, items = rand_pattern(rng)
                ss = [sample_subject(rng, items)]
                ss.append(mutate_subject(rng, ss[0]))
                rows.append((pat, ss))
                subjects += ss
            subjects = sorted(set(s for s in subjects if s and "\0" not in s and len(s.encode()) < 200))
            # links: name l<i>, target text = subject (may contain '/', may dangle — irrelevant for readlink)
            link_of = {}
            for i, s in enumerate(subjects):
                lp = os.path.join(sb, "links", "l%d" % i)
                try:
                    os.symlink(s, lp)
                    link_of[s] = "links/l%d" % i
                except OSError:
                    pass
            for kind in ("-lname", "-ilname"):
                lines = []
                meta = {}
                for i, (pat, _) in enumerate(rows):
                    subs = [s for s in subjects if s in link_of][:60]
                    cid = "l%d" % i
                    meta[cid] = (pat, subs)
                    lines.append("\t".join([cid, "P", "1", "2", common.hx(kind), common.hx(pat)] + [common.hx(link_of[s]) for s in subs]))
                res = common.run_vh("match", lines, base, cwd=sb, per_case_timeout=60)
                for cid, (pat, subs) in meta.items():
                    r = res.get(cid)
                    if r is None or r[0] in ("HANG", "CRASH"):
                        st.violate("hang-or-crash", None, {"test": kind, "pattern": pat, "result": r}, {"test": kind, "pattern": pat})
                        continue
                    msg = common.unhx(r[1]).decode("utf-8", "replace")
                    judge(st, kind, pat, subs, r[0], (r[2] if len(r) > 2 else "") if r[0] == "ok" else msg, rp_extra=msg)
                    st.inc("lname_rows")
            # binary sample: files named after the subjects that are valid names
            names = [s for s in subjects if "/" not in s and s not in (".", "..") and len(s.encode()) <= 255]
            made = []
            for s in names:
                try:
                    with open(os.path.join(sb, "files", s), "x"):
                        pass
                    made.append(s)
                except OSError:
                    pass
            for pat, _ in rows[:12]:
                if pat.startswith("-") is False and "\0" not in pat:
                    pass
                for kind in ("-name", "-iname"):
                    rc, out, err, to = common.run_cmd([common.FIND, "files", "-mindepth", "1", kind, pat, "-print0"], cwd=sb,
                                                      env=common.clean_env(), timeout=60)
                    st.inc("binary_runs")
                    if to or rc in (101, 134, -6, -11):
                        try:
                            posixfn.parse(pat, kind == "-iname")
                            st.violate("panic", None, {"test": kind, "pattern": pat, "rc": rc, "stderr": err[-300:]},
                                       {"test": kind, "pattern": pat, "via": "binary"})
                        except posixfn.Unsupported:
                            st.notes.append("binary panic on out-of-domain pattern %r (left to C11)" % pat)
                        continue
                    got = set(x.decode("utf-8", "surrogateescape")[len("files/"):] for x in out.split(b"\0") if x)
                    bits = "".join("1" if s in got else "0" for s in made)
                    judge(st, kind, pat, made, "ok", bits)
            common.force_rmtree(sb)
    finally:
        common.force_rmtree(base)
    return st


RAW_NAMES = [b"caf\xe9", b"a\xffb", b"\xff", b"\x80x", b"x\xfe", b"\xe9t\xe9", b"\xffab", b"f\xffx", b"A\xffB", b"na\xefve.txt", b"\xfe\xff"]
PLAIN_NAMES = ["cafe", "ab", "x", "caf\u00e9", "a?b", "fx", "AB", "naive.txt"]


def raw_name_worker(job):
    """Names that are not well-formed UTF-8 (a Latin-1 'caf\\xe9'), on a real tree through the real binary. Such a name is matched as
    find prints it - every ill-formed byte stands for one character - so '*', '?', '[!x]' and the ASCII parts must behave as for any
    other name. Each name lives in its own directory d/kNN/, and the directory is what gets printed (the name itself prints lossily)."""
    import posixfn
    k, nruns, seed = job
    st = Stats()
    rng = common.rng_for(seed, "C12raw", k)
    base = common.mkscratch("C12r%d" % k)
    try:
        names = [os.fsdecode(n) for n in RAW_NAMES] + PLAIN_NAMES
        for i, n in enumerate(names):
            os.makedirs(os.path.join(base, "d", "k%02d" % i))
            open(os.path.join(base, "d", "k%02d" % i, n), "w").close()
        shown = [os.fsencode(n).decode("utf-8", "replace") for n in names]       # the text find matches and prints
        for run in range(nruns):
            n = rng.choice(names[:len(RAW_NAMES)])
            text = os.fsencode(n).decode("utf-8", "replace")
            # a pattern derived from the name: every ill-formed byte becomes '?', '*', '[!q]' or '[^a-z]'; ASCII parts kept, dropped or starred
            pat = ""
            for ch in text:
                if ch == "\ufffd":
                    pat += rng.choice(["?", "?", "*", "[!q]", "[!a-z]", "??"])
                else:
                    pat += rng.choice([ch, ch, ch, "?", "*", "[" + ch + "]"])
            if rng.random() < 0.2:
                pat = rng.choice(["*", "?*", "*?", pat + "*", "*" + pat[-1:]])
            kind = rng.choice(["-name", "-name", "-iname", "-path", "-ipath"])
            cf = kind in ("-iname", "-ipath")
            if cf:
                pat = pat.swapcase() if rng.random() < 0.5 else pat
            fpat = pat if kind in ("-name", "-iname") else "d/k*/" + pat
            rc, out, err, to = common.run_cmd([common.FIND, "d", "-mindepth", "2", kind, fpat, "-printf", "%h\\0"], cwd=base,
                                              env=common.clean_env(), timeout=60)
            st.inc("raw_name_runs")
            rp = {"args": ["find", "d", "-mindepth", "2", kind, fpat, "-printf", "%h\\0"], "names": [list(os.fsencode(x)) for x in names]}
            if to or rc != 0:
                st.violate("panic", None, {"args": rp["args"], "rc": rc, "stderr": err[-300:]}, rp)
                continue
            got = set(x.decode() for x in out.split(b"\0") if x)
            try:
                toks = posixfn.parse(pat, cf)
            except posixfn.Unsupported:
                st.inc("out_of_domain_own_matcher")
                continue
            for i, (nm, tx) in enumerate(zip(names, shown)):
                want = posixfn.match_tokens(toks, tx, cf)
                if cf and not tx.isascii() and any(c.isalpha() and not c.isascii() for c in tx):
                    continue                           # case pairs outside ASCII: not decided (see the verdict domain)
                st.inc("evaluations")
                if i < len(RAW_NAMES):
                    st.inc("evaluations_on_names_that_are_not_utf8")
                    st.inc("raw_members" if want else "raw_non_members")
                g = ("d/k%02d" % i) in got
                if g != want:
                    st.violate("fnmatch-mismatch", None, {"test": kind, "pattern": fpat, "name_bytes": os.fsencode(nm), "matched_as": tx,
                                                          "expected": want, "find": g, "source": "binary/raw-names"}, rp)
    finally:
        common.force_rmtree(base)
    return st


def root_spelling_worker(job):
    """The root directory as a starting point, spelled with one to six slashes (round 9): its last path component is "/" however many
    slashes spell it, so -name/-iname PAT on that depth-0 entry is fnmatch(PAT, "/"); -path sees the spelling as given."""
    k, nruns, seed = job
    st = Stats()
    rng = common.rng_for(seed, "C12root", k)
    fixed = ["/", "?", "*", "[/]", "??", "//", "", "\\/", "[!a]", "?*", "*?", "[!/]", "/*", "???", "a"]
    for i in range(nruns):
        pat = fixed[(i + k) % len(fixed)] if i < len(fixed) else rand_pattern(rng)[0]
        if "\0" in pat:
            continue
        for casefold in (False, True):
            row = oracle_row(pat, ["/"], casefold)
            if row is None or row[0] is None:
                st.inc("out_of_domain_patterns")
                continue
            for nsl in range(1, 7):
                sp = "/" * nsl
                wp = oracle_row(pat, [sp], casefold)
                args = ["find", sp, "-maxdepth", "0", "(", "-iname" if casefold else "-name", pat, "-printf", "N", ")", ",",
                        "(", "-ipath" if casefold else "-path", pat, "-printf", "P", ")"]
                rc, out, err, to = common.run_cmd([common.FIND] + args[1:], cwd="/", timeout=60)
                st.inc("binary_runs")
                st.inc("root_spelling_runs")
                if to or rc in (101, 134, -6, -11):
                    st.violate("panic-or-hang", None, {"args": args, "rc": rc, "stderr": err[-300:]}, {"args": args})
                    continue
                if rc != 0:
                    continue                               # rejected patterns are the single-test workloads' business
                st.inc("evaluations")
                st.add("root_spellings", nsl)
                if (b"N" in out) != row[0]:
                    st.violate("fnmatch-mismatch", None, {"args": args, "subject": "/", "note": "last component of the root directory spelled " + sp,
                                                          "expected": row[0], "find": b"N" in out}, {"args": args})
                if wp is not None and wp[0] is not None and (b"P" in out) != wp[0]:
                    st.violate("fnmatch-mismatch", None, {"args": args, "subject": sp, "note": "whole path of the root directory as spelled",
                                                          "expected": wp[0], "find": b"P" in out}, {"args": args})
    return st


def memcheck_worker(job):
    """The same kind of pattern rows replayed under valgrind memcheck: Oniguruma (C) compiles and runs every translated
    pattern. A crash is a violation; memcheck reports without a crash are advisory (counted, shown in the notes)."""
    k, nrows, seed = job
    st = Stats()
    rng = common.rng_for(seed, "C12m", k)
    base = common.mkscratch("C12m%d" % k)
    try:
        lines = []
        for i in range(nrows):
            kind = KINDS[i % len(KINDS)]
            pat, items = rand_pattern(rng)
            if i % 5 == 0:
                pat = "".join(rng.choice(PAT_ALPHA + ["[:", ":]", "[.", "[="]) for _ in range(rng.randint(1, 8)))
            subs = set()
            for _ in range(4):
                x = sample_subject(rng, items)
                subs.add(x)
                subs.add(mutate_subject(rng, x))
            paths = [subject_path(kind, x) for x in subs if "\0" not in x]
            paths = [x for x in paths if x is not None]
            if not paths:
                continue
            lines.append("\t".join(["m%d" % i, "P", "1", "2", common.hx(kind), common.hx(pat)] + [common.hx(x) for x in paths]))
        res, rep = common.run_vh_memcheck("match", lines, base, cwd=base)
        st.inc("memcheck_pattern_rows", rep["answered"])
        st.inc("memcheck_error_reports", rep["errors"])
        if rep["timed_out"]:
            st.notes.append("memcheck run timed out (inconclusive for this shard)")
        elif rep["crashed"]:
            st.violate("memcheck-crash", None, {"rc": rep["rc"], "answered": rep["answered"], "cases": rep["cases"], "log": rep["first"][:600]},
                       {"cases": lines[rep["answered"]:rep["answered"] + 3]})
        if rep["errors"]:
            st.notes.append("memcheck reported %d errors (advisory): %r" % (rep["errors"], rep["kinds"]))
    finally:
        common.force_rmtree(base)
    return st


def self_check():
    bad = posixfn.self_check()
    if bad:
        raise common.Inconclusive("posixfn self-check failed: %r" % bad[:3])
    fnm.set_locale("C.UTF-8")
    for p, s, want in posixfn.SELF_TABLE:
        if p.endswith("\\") and not p.endswith("\\\\"):
            continue
        if fnm.fnmatch(p, s) != want:
            # table entries on which glibc has its own opinion are not usable as calibration, but must be few
            if (p, s) not in (("[a", "[a"),):
                raise common.Inconclusive("glibc fnmatch disagrees with the hand table on %r %r" % (p, s))


def run(ctx):
    ctx.rule = ("(pattern, subject) pairs: bounded-exhaustive over a 10-symbol pattern alphabet {a b * ? [ ] ! \\ - .} x 10-symbol subject "
                "alphabet, plus structured random patterns (regex metacharacters as literals, escapes, well-formed bracket expressions "
                "with negation/leading ]/ranges/classes/trailing -, stray [ ] !, lone trailing backslash) with subjects sampled from the "
                "pattern and mutated (prefix/suffix/extension/substitution/case); tests -name -iname -path -ipath -wholename -iwholename "
                "in-process, -lname/-ilname on real symlinks, -name/-iname through the binary; a pair counts only if judged "
                "(glibc C.UTF-8 = glibc C = own POSIX matcher); distinct = (casefold, pattern) judged")
    ctx.assumptions = ["glibc 2.36 fnmatch(3) and lib/posixfn.py (self-checked against a hand table); judged only where both agree",
                       "subjects '.' and '..' not used for -name", "valid UTF-8 only"]
    self_check()
    nw = common.NCPU
    plen, slen = ctx.scale((3, 3), (4, 4))
    ctx.pmap(exhaustive_worker, [(k, nw, plen, slen, ctx.seed) for k in range(nw)])
    ctx.exhaustive = False
    nrand = ctx.scale(6000, 400000)
    ctx.pmap(random_worker, [(k, nrand // nw, ctx.seed) for k in range(nw)])
    nl = ctx.scale(320, 8000)
    ctx.pmap(lname_worker, [(k, nl // nw, ctx.seed) for k in range(nw)])
    ctx.pmap(long_subject_worker, [(k, ctx.scale(12, 400), ctx.seed) for k in range(nw)])
    ctx.pmap(pair_worker, [(k, ctx.scale(100, 6000), ctx.seed) for k in range(nw)])
    ctx.require("pair_evaluations_where_the_two_modes_differ", 50)
    ctx.pmap(raw_name_worker, [(k, ctx.scale(6, 400), ctx.seed) for k in range(nw)])
    ctx.pmap(root_spelling_worker, [(k, ctx.scale(4, 60), ctx.seed) for k in range(nw)])
    ctx.require("root_spelling_runs", 100)
    ctx.require("raw_members", 20)
    ctx.require("raw_non_members", 20)
    if common.memcheck_available():
        nm = ctx.scale(1200, 48000)
        ctx.pmap(memcheck_worker, [(k, nm // nw, ctx.seed) for k in range(nw)])
        ctx.require("memcheck_pattern_rows", 50)
        ctx.assumptions.append("valgrind memcheck on the release harness: a crash is a violation, reports without a crash are advisory")
    else:
        ctx.stats.notes.append("valgrind not available: memcheck replay skipped")
    for key in ("pairs_matching", "pairs_not_matching", "lname_rows", "binary_runs", "feature:set", "feature:negated-set",
                "feature:set-class", "feature:set-range", "feature:escape", "feature:stray-open-bracket", "feature:regex-meta-literal"):
        ctx.require(key, 10)
