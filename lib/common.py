"""Shared machinery: building the code under test, running it, collecting what was observed,
three-valued verdicts, known findings, evidence files."""
import collections
import fcntl
import hashlib
import json
import os
import random
import shutil
import signal
import subprocess
import sys
import tempfile
import time
import traceback
import multiprocessing

VERIF = os.path.dirname(os.path.dirname(os.path.abspath(__file__)))
REPO = os.path.abspath(os.environ.get("VERIF_REPO", "/repo"))
NCPU = min(16, os.cpu_count() or 4)


# VERIF_INSTRUMENT=overflow: the same sources built with integer-overflow checks and debug assertions switched on (the Rust
# counterpart of -fsanitize=signed-integer-overflow,unsigned-integer-overflow with -fno-sanitize-recover): an arithmetic
# overflow that the plain release build wraps silently becomes a panic the monitors see.
INSTRUMENT = os.environ.get("VERIF_INSTRUMENT", "")


def _key():
    suffix = ("-" + INSTRUMENT) if INSTRUMENT else ""
    if REPO == "/repo":
        return "repo" + suffix
    return "r" + hashlib.sha1(REPO.encode()).hexdigest()[:10] + suffix


BUILD = os.path.join(VERIF, ".build", _key())
TARGET = os.path.join(BUILD, "target")
BIN = os.path.join(TARGET, "release")
FIND = os.path.join(BIN, "find")
XARGS = os.path.join(BIN, "xargs")
VH = os.path.join(BIN, "vh")
REC = os.path.join(BIN, "rec")

EXIT_HELD, EXIT_VIOLATED, EXIT_INCONCLUSIVE = 0, 1, 2
try:
    QUICK_MULT = max(1, int(os.environ.get("VERIF_QUICK_MULT", "4")))
except ValueError:
    QUICK_MULT = 4


class Inconclusive(Exception):
    pass


# ------------------------------------------------------------------------------------------
# building


def _sync_file(src, dst):
    try:
        with open(src, "rb") as f:
            a = f.read()
    except FileNotFoundError:
        return
    try:
        with open(dst, "rb") as f:
            if f.read() == a:
                return
    except FileNotFoundError:
        pass
    os.makedirs(os.path.dirname(dst), exist_ok=True)
    with open(dst, "wb") as f:
        f.write(a)


def ensure_built(verbose=False):
    """Build find/xargs (hooks on) and the harness from REPO's current working tree."""
    os.makedirs(BUILD, exist_ok=True)
    env = dict(os.environ)
    env["CARGO_NET_OFFLINE"] = "true"
    env.pop("RUSTFLAGS", None)
    if INSTRUMENT == "overflow":
        env["RUSTFLAGS"] = "-C overflow-checks=on -C debug-assertions=on"
    elif INSTRUMENT:
        raise Inconclusive("unknown VERIF_INSTRUMENT=%r" % INSTRUMENT)
    with open(os.path.join(BUILD, "lock"), "w") as lk:
        fcntl.flock(lk, fcntl.LOCK_EX)
        hdir = os.path.join(BUILD, "harness")
        src = os.path.join(VERIF, "harness")
        for rel in ("src/main.rs", "src/bin/rec.rs"):
            _sync_file(os.path.join(src, rel), os.path.join(hdir, rel))
        with open(os.path.join(src, "Cargo.toml.in")) as f:
            toml = f.read().replace("@REPO@", REPO)
        tp = os.path.join(hdir, "Cargo.toml")
        if not os.path.exists(tp) or open(tp).read() != toml:
            with open(tp, "w") as f:
                f.write(toml)
        # lock file: start from the repository's so that resolution works offline
        rl = os.path.join(REPO, "Cargo.lock")
        stamp = os.path.join(hdir, ".lock-src-sha")
        h = hashlib.sha1(open(rl, "rb").read()).hexdigest()
        if not os.path.exists(os.path.join(hdir, "Cargo.lock")) or not os.path.exists(stamp) or open(stamp).read() != h:
            shutil.copyfile(rl, os.path.join(hdir, "Cargo.lock"))
            with open(stamp, "w") as f:
                f.write(h)
        cmds = [
            ["cargo", "build", "--release", "--offline", "--manifest-path", os.path.join(REPO, "Cargo.toml"),
             "--features", "verif_hooks", "--bins", "--target-dir", TARGET],
            ["cargo", "build", "--release", "--offline", "--manifest-path", tp, "--target-dir", TARGET],
        ]
        for c in cmds:
            p = subprocess.run(c, env=env, stdout=subprocess.PIPE, stderr=subprocess.STDOUT, text=True)
            if p.returncode != 0:
                sys.stdout.write(p.stdout[-6000:])
                raise Inconclusive("build failed: " + " ".join(c))
            if verbose:
                sys.stdout.write(p.stdout[-400:])
    for b in (FIND, XARGS, VH, REC):
        if not os.path.exists(b):
            raise Inconclusive("missing binary " + b)


# ------------------------------------------------------------------------------------------
# helpers


def hx(b):
    if isinstance(b, str):
        b = b.encode()
    return b.hex()


def unhx(s):
    return bytes.fromhex(s)


def sub_seed(seed, *parts):
    h = hashlib.sha256((str(seed) + ":" + ":".join(str(p) for p in parts)).encode()).hexdigest()
    return int(h[:16], 16)


def rng_for(seed, *parts):
    return random.Random(sub_seed(seed, *parts))


def scratch_root():
    base = "/dev/shm" if os.path.isdir("/dev/shm") and os.access("/dev/shm", os.W_OK) else tempfile.gettempdir()
    return base


def sweep_stale():
    base = scratch_root()
    now = time.time()
    try:
        for n in os.listdir(base):
            if n.startswith("verif-"):
                p = os.path.join(base, n)
                try:
                    if now - os.lstat(p).st_mtime > 3 * 3600:
                        force_rmtree(p)
                except OSError:
                    pass
    except OSError:
        pass


def _unmount_below(p):
    """Lazily unmount anything still mounted below p (the -xdev workload mounts small tmpfs instances inside its scratch tree)."""
    try:
        with open("/proc/mounts", "rb") as f:
            mps = [l.split(b" ")[1].decode("unicode_escape", "replace") for l in f if l.count(b" ") >= 2]
    except OSError:
        return
    pre = p.rstrip("/") + "/"
    for m in sorted((m for m in mps if m.startswith(pre)), key=len, reverse=True):
        subprocess.run(["umount", "-l", m], stdout=subprocess.DEVNULL, stderr=subprocess.DEVNULL)


def force_rmtree(p):
    if p.startswith(scratch_root() + "/verif-"):
        _unmount_below(p)

    def onerr(func, path, exc):
        try:
            os.chmod(os.path.dirname(path), 0o700)
            os.chmod(path, 0o700)
            func(path)
        except OSError:
            pass
    # make everything traversable first (mode-000 directories from fault injection)
    for root, dirs, files in os.walk(p, topdown=True):
        for d in dirs:
            dp = os.path.join(root, d)
            try:
                if not os.path.islink(dp):
                    os.chmod(dp, 0o700)
            except OSError:
                pass
    shutil.rmtree(p, onerror=onerr)


def mkscratch(tag=""):
    d = tempfile.mkdtemp(prefix="verif-%s-" % tag, dir=scratch_root())
    os.chmod(d, 0o755)
    return d


def run_cmd(argv, input=None, env=None, cwd=None, timeout=60, preexec_fn=None, stdin=None):
    """Run a command; returns (rc, stdout, stderr, timed_out). rc<0 = killed by signal."""
    try:
        p = subprocess.Popen(argv, stdin=(subprocess.PIPE if input is not None else (stdin or subprocess.DEVNULL)),
                             stdout=subprocess.PIPE, stderr=subprocess.PIPE, env=env, cwd=cwd,
                             preexec_fn=preexec_fn, start_new_session=True)
    except OSError as e:
        raise Inconclusive("cannot start %r: %s" % (argv[:2], e))
    try:
        out, err = p.communicate(input=input, timeout=timeout)
        return p.returncode, out, err, False
    except subprocess.TimeoutExpired:
        try:
            os.killpg(p.pid, signal.SIGKILL)
        except OSError:
            pass
        out, err = p.communicate()
        return p.returncode, out, err, True


def clean_env(extra=None):
    env = {"PATH": "/usr/local/bin:/usr/bin:/bin", "LC_ALL": "C.UTF-8", "HOME": "/nonexistent", "TZ": "UTC"}
    if extra:
        env.update(extra)
    return env


# ------------------------------------------------------------------------------------------
# in-process harness driver


class VhRow:
    __slots__ = ("id", "status", "fields")

    def __init__(self, id, status, fields):
        self.id, self.status, self.fields = id, status, fields


MEMCHECK_RE = None


def run_vh_memcheck(mode, lines, workdir, cwd=None, timeout=1800, env=None, extra=()):
    """Run `vh MODE` over the case lines under valgrind memcheck (plain release build; leak checking off). Returns
    (results dict as run_vh, report dict): report = {"errors": n, "kinds": {...}, "crashed": bool, "first": text}.
    A crash/abort of the process is what the properties forbid; memcheck *reports* without a crash are advisory."""
    import re
    import tempfile as _tf
    wd = _tf.mkdtemp(prefix="vhm-", dir=workdir)
    try:
        cf = os.path.join(wd, "cases.tsv")
        of = os.path.join(wd, "out.tsv")
        lf = os.path.join(wd, "memcheck.log")
        with open(cf, "w") as f:
            f.write("\n".join(lines) + "\n")
        cmd = ["valgrind", "--tool=memcheck", "--quiet", "--leak-check=no", "--error-limit=no", "--num-callers=12", "--log-file=" + lf,
               VH, mode, cf, of] + list(extra)
        rc, out, err, to = run_cmd(cmd, cwd=cwd, timeout=timeout, env=env)
        results = {}
        try:
            with open(of) as f:
                for r in f.read().split("\n"):
                    if r:
                        fs = r.split("\t")
                        results[fs[0]] = fs[1:]
        except FileNotFoundError:
            pass
        try:
            with open(lf, errors="replace") as f:
                log = f.read()
        except FileNotFoundError:
            log = ""
        kinds = collections.Counter()
        for m in re.finditer(r"==\d+== (Invalid (?:read|write|free)[^\n]*|Conditional jump or move depends on uninitialised[^\n]*|"
                             r"Use of uninitialised[^\n]*|Mismatched free[^\n]*|Source and destination overlap[^\n]*|Process terminating[^\n]*)", log):
            kinds[m.group(1)[:60]] += 1
        crashed = (not to) and (rc != 0 or len(results) < len(lines))
        rep = {"errors": sum(v for k, v in kinds.items() if not k.startswith("Process terminating")), "kinds": dict(kinds), "crashed": crashed,
               "timed_out": to, "rc": rc, "cases": len(lines), "answered": len(results), "first": log[:1500]}
        return results, rep
    finally:
        shutil.rmtree(wd, ignore_errors=True)


def memcheck_available():
    try:
        return subprocess.run(["valgrind", "--version"], capture_output=True, timeout=20).returncode == 0
    except Exception:
        return False


def run_vh(mode, lines, workdir, extra=(), cwd=None, per_case_timeout=20.0, batch_timeout=None, env=None):
    """Run `vh MODE` over case lines (each starting with a unique id field).
    Returns dict id -> list of output fields (after the id). A case on which the harness hung is
    reported as ['HANG'], one on which it died as ['CRASH', rc]."""
    results = {}
    pending = list(lines)
    attempt = 0
    workdir = tempfile.mkdtemp(prefix="vh-", dir=workdir)
    try:
        return _run_vh(mode, pending, workdir, extra, cwd, per_case_timeout, batch_timeout, env, results)
    finally:
        shutil.rmtree(workdir, ignore_errors=True)


HANGS_IN_THIS_PROCESS = [0]


def _run_vh(mode, pending, workdir, extra, cwd, per_case_timeout, batch_timeout, env, results):
    attempt = 0
    hangs = 0
    if HANGS_IN_THIS_PROCESS[0] >= 8:
        # this worker has already confirmed eight hangs (the check has failed eight times over): do not spend more watchdog time
        for l in pending:
            results[l.split("\t", 1)[0]] = ["NOTRUN"]
        return results
    while pending:
        attempt += 1
        cf = os.path.join(workdir, "vh-cases-%d.tsv" % attempt)
        of = os.path.join(workdir, "vh-out-%d.tsv" % attempt)
        with open(cf, "w") as f:
            f.write("\n".join(pending))
            f.write("\n")
        if os.path.exists(of):
            os.unlink(of)
        tmo = batch_timeout if batch_timeout else max(60.0 if HANGS_IN_THIS_PROCESS[0] == 0 else 20.0, per_case_timeout + 0.05 * len(pending))
        rc, out, err, timed_out = run_cmd([VH, mode, cf, of] + list(extra), cwd=cwd, timeout=tmo, env=env)
        done = set()
        try:
            with open(of) as f:
                data = f.read()
        except FileNotFoundError:
            data = ""
        rows = data.split("\n")
        if rows and rows[-1] != "":
            rows = rows[:-1]  # partial last line
        for r in rows:
            if not r:
                continue
            fs = r.split("\t")
            results[fs[0]] = fs[1:]
            done.add(fs[0])
        if not timed_out and rc == 0:
            missing = [l for l in pending if l.split("\t", 1)[0] not in done]
            if missing:
                raise Inconclusive("harness finished but %d cases have no result" % len(missing))
            break
        # find the first case without result: it is the suspect
        rest = [l for l in pending if l.split("\t", 1)[0] not in done]
        if not rest:
            break
        suspect = rest[0]
        sid = suspect.split("\t", 1)[0]
        if len(pending) == 1:
            results[sid] = ["HANG"] if timed_out else ["CRASH", str(rc), err[-300:].decode("utf-8", "replace")]
            break
        # re-run the suspect alone with a generous budget
        cf1 = os.path.join(workdir, "vh-cases-s.tsv")
        of1 = os.path.join(workdir, "vh-out-s.tsv")
        with open(cf1, "w") as f:
            f.write(suspect + "\n")
        if os.path.exists(of1):
            os.unlink(of1)
        rc1, out1, err1, to1 = run_cmd([VH, mode, cf1, of1] + list(extra), cwd=cwd,
                                       timeout=max(120.0, per_case_timeout * 10) if HANGS_IN_THIS_PROCESS[0] == 0 else max(30.0, per_case_timeout),
                                       env=env)
        got = False
        try:
            with open(of1) as f:
                for r in f.read().split("\n"):
                    if r:
                        fs = r.split("\t")
                        results[fs[0]] = fs[1:]
                        got = True
        except FileNotFoundError:
            pass
        if not got:
            results[sid] = ["HANG"] if to1 else ["CRASH", str(rc1), err1[-300:].decode("utf-8", "replace")]
            if to1:
                hangs += 1
                HANGS_IN_THIS_PROCESS[0] += 1
        pending = rest[1:]
        if hangs >= 4 and pending:
            # a tree on which case after case hangs: four confirmed hangs are reported; the remaining cases of this batch are
            # marked as not run (each further one would cost minutes of watchdog time and say the same)
            for l in pending:
                results[l.split("\t", 1)[0]] = ["NOTRUN"]
            break
    return results


def find_case(cid, args, now_ns=0):
    return "\t".join([str(cid), str(now_ns)] + [hx(a) for a in args])


class FindResult:
    __slots__ = ("code", "panic", "out", "fd1", "fd2", "elapsed_us", "special")

    def __init__(self, fields):
        self.special = None
        self.code = None
        self.panic = None
        self.out = self.fd1 = self.fd2 = b""
        self.elapsed_us = 0
        if fields[0] in ("HANG", "CRASH", "SKIP", "NOTRUN"):
            self.special = fields[0]
            if fields[0] == "CRASH":
                self.panic = "crash rc=%s %s" % (fields[1], fields[2] if len(fields) > 2 else "")
            return
        if fields[0] == "PANIC":
            self.panic = unhx(fields[1]).decode("utf-8", "replace")
        else:
            self.code = int(fields[0])
        self.out = unhx(fields[2])
        self.fd1 = unhx(fields[3])
        self.fd2 = unhx(fields[4])
        self.elapsed_us = int(fields[5])


def run_find_inproc(cases, workdir, cwd, uid=None, per_case_timeout=20.0, env=None):
    """cases: list of (id, args[, now_ns]); args include argv[0]. Returns dict id -> FindResult."""
    lines = []
    for c in cases:
        cid, args = c[0], c[1]
        now_ns = c[2] if len(c) > 2 else 0
        lines.append(find_case(cid, args, now_ns))
    extra = ["--uid", str(uid)] if uid is not None else []
    raw = run_vh("find", lines, workdir, extra=extra, cwd=cwd, per_case_timeout=per_case_timeout, env=env)
    return {k: FindResult(v) for k, v in raw.items()}


# ------------------------------------------------------------------------------------------
# observations, violations, evidence


class Stats:
    """Mergeable bag of counters, capped sets and samples."""

    def __init__(self):
        self.c = collections.Counter()
        self.sets = collections.defaultdict(set)
        self.samples = []
        self.violations = []
        self.notes = []

    def inc(self, k, n=1):
        self.c[k] += n

    def add(self, k, v, cap=200000):
        s = self.sets[k]
        if len(s) < cap:
            s.add(v)

    def sample(self, v, cap=6):
        if len(self.samples) < cap:
            self.samples.append(v)

    def violate(self, kind, sig, detail, replay=None):
        """kind: short category; sig: exact signature used for known-finding matching."""
        if sig is not None:
            # violations carrying a mechanism signature are counted per signature and only a few are kept, so that a
            # frequent (possibly known) mechanism cannot crowd other violations out of the bounded list
            self.c["sig:" + sig] += 1
            if self.c["sig:" + sig] > 5:
                self.c["violations_total"] += 1
                return
        if len(self.violations) < 400:
            self.violations.append({"kind": kind, "sig": sig, "detail": detail, "replay": replay})
        self.c["violations_total"] += 1

    def merge(self, o):
        self.c.update(o.c)
        for k, v in o.sets.items():
            if len(self.sets[k]) < 2000000:      # bounded memory; the evidence then reports a lower bound
                self.sets[k] |= v
        for s in o.samples:
            if len(self.samples) < 12:
                self.samples.append(s)
        self.violations.extend(o.violations[: max(0, 400 - len(self.violations))])
        self.notes.extend(o.notes)


def jsonable(x):
    if isinstance(x, str):
        try:
            x.encode("utf-8")
            return x
        except UnicodeEncodeError:      # a file name that is not valid UTF-8, carried as surrogate escapes
            return {"hex": x.encode("utf-8", "surrogateescape").hex()}
    if isinstance(x, bytes):
        try:
            return x.decode("utf-8")
        except UnicodeDecodeError:
            return {"hex": x.hex()}
    if isinstance(x, (list, tuple)):
        return [jsonable(i) for i in x]
    if isinstance(x, (set, frozenset)):
        return sorted(jsonable(i) for i in x)
    if isinstance(x, dict):
        return {str(k): jsonable(v) for k, v in x.items()}
    return x


def load_known():
    p = os.path.join(VERIF, "known_findings.json")
    try:
        with open(p) as f:
            return json.load(f)
    except FileNotFoundError:
        return {"known": [], "fixed": []}


class Ctx:
    def __init__(self, prop, tier, seed, replay=None):
        self.prop, self.tier, self.seed, self.replay = prop, tier, seed, replay
        self.t0 = time.time()
        self.stats = Stats()
        self.scratch_dirs = []
        self.level = "exploration"
        self.rule = ""
        self.assumptions = []
        self.extra_cov = {}
        self.required = []  # (counter key, minimum) pairs that must be observed, else inconclusive
        self.exhaustive = None

    @property
    def quick(self):
        return self.tier == "quick"

    def scale(self, q, t):
        """Tier-dependent parameter. Workload *counts* (integers >= 100) of the quick tier are multiplied by QUICK_MULT
        (default 4; the quick tier then takes 5-25 s per property on 16 cores), never beyond the thorough value."""
        if not self.quick:
            return t
        if isinstance(q, int) and not isinstance(q, bool) and q >= 100 and isinstance(t, int):
            return min(q * QUICK_MULT, t)
        return q

    def scratch(self, tag=None):
        d = mkscratch(tag or self.prop)
        self.scratch_dirs.append(d)
        return d

    def cleanup(self):
        for d in self.scratch_dirs:
            try:
                force_rmtree(d)
            except Exception:
                pass
        self.scratch_dirs = []

    def require(self, key, minimum=1):
        self.required.append((key, minimum))

    # -- parallel map over work items; func(item) -> Stats
    def pmap(self, func, items, nproc=None):
        nproc = nproc or NCPU
        items = list(items)
        if not items:
            return
        if nproc == 1 or len(items) == 1:
            for it in items:
                self.stats.merge(func(it))
            return
        # ProcessPoolExecutor (unlike multiprocessing.Pool) notices a worker that was killed (out of memory, signal): the run is
        # then inconclusive instead of waiting for ever for the lost result
        import concurrent.futures as cf
        from concurrent.futures.process import BrokenProcessPool
        with cf.ProcessPoolExecutor(max_workers=min(nproc, len(items)), mp_context=multiprocessing.get_context("fork")) as pool:
            futs = [pool.submit(_guard(func), it) for it in items]
            try:
                for fu in cf.as_completed(futs):
                    st = fu.result()
                    if isinstance(st, tuple) and st and st[0] == "__exc__":
                        for o in futs:
                            o.cancel()
                        raise Inconclusive("worker failed: " + st[1])
                    self.stats.merge(st)
            except BrokenProcessPool:
                raise Inconclusive("a worker process was killed (out of memory?) - nothing can be concluded from this run")

    def finish(self):
        st = self.stats
        known = [k for k in load_known().get("known", []) if k.get("property") == self.prop]
        known_hits = collections.OrderedDict()
        fresh = []
        for v in st.violations:
            hit = None
            for k in known:
                if v["sig"] is not None and v["sig"] == k.get("sig"):
                    hit = k
                    break
            if hit:
                known_hits.setdefault(hit["sig"], [hit, 0])
                known_hits[hit["sig"]][1] = max(known_hits[hit["sig"]][1] + 1, int(st.c.get("sig:" + hit["sig"], 0)))
            else:
                fresh.append(v)
        inconclusive_reasons = []
        for key, minimum in self.required:
            if st.c.get(key, 0) < minimum:
                inconclusive_reasons.append("observed %s=%d < %d" % (key, st.c.get(key, 0), minimum))
        # evidence
        cov = {
            "evaluations": int(st.c.get("evaluations", 0)),
            "distinct_nontrivial": int(len(st.sets.get("distinct", ())) or st.c.get("distinct_nontrivial", 0)),
            "rule": self.rule,
            "samples": jsonable(st.samples[:8]) or ["<none>"],
            "counters": {k: int(v) for k, v in sorted(st.c.items())},
            "distinct_sets": {k: len(v) for k, v in sorted(st.sets.items())},
        }
        if self.exhaustive is not None:
            cov["exhaustive"] = bool(self.exhaustive)
        cov.update(jsonable(self.extra_cov))
        if st.notes:
            cov["notes"] = st.notes[:20]
        if known_hits:
            cov["known_findings_observed"] = {s: n for s, (k, n) in known_hits.items()}
        ev = {
            "property_id": self.prop,
            "tier": self.tier,
            "seed": int(self.seed),
            "level": self.level,
            "coverage": cov,
            "assumptions": self.assumptions,
            "wall_s": round(time.time() - self.t0, 2),
            "violations": len(fresh),
        }
        if inconclusive_reasons:
            ev["coverage"]["inconclusive"] = inconclusive_reasons
        evdir = os.environ.get("VERIF_EVIDENCE_DIR") or os.path.join(VERIF, "evidence")
        os.makedirs(evdir, exist_ok=True)
        if not self.replay:
            with open(os.path.join(evdir, self.prop + ".json"), "w") as f:
                json.dump(ev, f, indent=1, sort_keys=True, ensure_ascii=False)
                f.write("\n")
        # report
        print("== %s tier=%s seed=%s wall=%.1fs" % (self.prop, self.tier, self.seed, time.time() - self.t0))
        print("observed: evaluations=%d distinct_nontrivial=%d" % (cov["evaluations"], cov["distinct_nontrivial"]))
        for k, v in sorted(st.c.items()):
            print("  %-40s %d" % (k, v))
        for k, v in sorted(st.sets.items()):
            print("  |%s| = %d" % (k, len(v)))
        for s, (k, n) in known_hits.items():
            print("KNOWN-FINDING: property=%s %s [%s; seen %d times]" % (self.prop, k.get("what", ""), s, n))
        if fresh and os.environ.get("VERIF_DUMP"):
            for v in fresh:
                if v["sig"] is None or os.environ.get("VERIF_DUMP") == "all":
                    print("DUMP %s %s" % (v["kind"], json.dumps(jsonable(v["detail"]), ensure_ascii=False)[:1200]))
        if fresh:
            rdir = os.path.join(os.environ.get("VERIF_REPLAY_DIR") or os.path.join(VERIF, "replays"), self.prop)
            os.makedirs(rdir, exist_ok=True)
            shown = 0
            seen_kinds = collections.Counter()
            for i, v in enumerate(fresh):
                seen_kinds[v["kind"]] += 1
                if seen_kinds[v["kind"]] > 5 or shown >= 25:
                    continue
                shown += 1
                rp = os.path.join(rdir, "%s-%s-%d-%d.json" % (self.tier, self.seed, int(self.t0) % 100000, i))
                with open(rp, "w") as f:
                    json.dump(jsonable({"property": self.prop, "kind": v["kind"], "sig": v["sig"],
                                        "detail": v["detail"], "replay": v["replay"]}), f, indent=1, ensure_ascii=False)
                print("VIOLATION property=%s replay=%s" % (self.prop, rp))
                print("   kind=%s sig=%s" % (v["kind"], v["sig"]))
                print("   " + json.dumps(jsonable(v["detail"]), ensure_ascii=False)[:1500])
            print("violations: %d (by kind: %s)" % (st.c.get("violations_total", len(fresh)), dict(seen_kinds)))
            return EXIT_VIOLATED
        if inconclusive_reasons:
            print("INCONCLUSIVE: " + "; ".join(inconclusive_reasons))
            return EXIT_INCONCLUSIVE
        print("HELD on everything observed")
        return EXIT_HELD


class _guard:
    def __init__(self, f):
        self.f = f

    def __call__(self, item):
        try:
            return self.f(item)
        except Inconclusive as e:
            return ("__exc__", "inconclusive: %s" % e)
        except Exception:
            return ("__exc__", traceback.format_exc()[-3000:])


def drop_to(uid):
    def f():
        os.setgroups([])
        os.setresgid(uid, uid, uid)
        os.setresuid(uid, uid, uid)
    return f
