"""C02 — every in-range entry visited exactly once under -P/-H/-L; errors diagnosed without dropping others.

Monitor: multiset of paths printed by `find MODE ROOTS [-follow] -mindepth m -maxdepth n [-depth] -print0`
against the reference walk (lib/refwalk.py); exit status / stderr against the modelled error events."""
import collections
import os

import common
import refwalk
import treegen
from common import Stats

# "X+follow": the option -X first and the (deprecated) primary -follow later; -follow means -L from there on, whatever came before
MODES = ["P", "H", "L", "follow", "P", "H", "L", "follow", "P+follow", "H+follow", "L+follow"]


def expected(cwd, roots, mode, m, n, depth_first, deny=()):
    w = refwalk.Walk("L" if mode.endswith("follow") else mode, m, n, depth_first, True, cwd)
    w.deny = set(deny)
    w.unreadable_required = True
    out = []
    for r in roots:
        w.run(r, lambda e: out.append(e.path) and False)
    return collections.Counter(out), w


def build_args(roots, mode, m, n, depth_first, rng):
    a = ["find"]
    flag = mode[0] if mode[0] in "PHL" else None
    if flag:
        if rng.random() < 0.25:
            # earlier -P/-H/-L (and the ignored -O levels) are overridden by the last one given
            for _ in range(rng.choice([1, 1, 2])):
                a.append(rng.choice(["-P", "-H", "-L", "-O1", "-O3"]))
            a.append("-" + flag)
        elif flag != "P" or rng.random() < 0.5 or mode != "P":
            a.append("-" + flag)
    a += roots
    opts = []
    if mode.endswith("follow"):
        opts.append(["-follow"])
    # a depth option given twice: the later value is the one in force
    if m is not None:
        opts.append((["-mindepth", str(rng.randint(0, 6))] if rng.random() < 0.12 else []) + ["-mindepth", str(m)])
    if n is not None:
        opts.append((["-maxdepth", str(rng.randint(0, 6))] if rng.random() < 0.12 else []) + ["-maxdepth", str(n)])
    if depth_first:
        opts.append([rng.choice(["-depth", "-d"])])
    rng.shuffle(opts)
    for o in opts:
        a += o
    a.append("-print0")
    return a


def judge(st, cfg, cwd, code, out, err, panic, vehicle, deny=()):
    roots, mode, m, n, df, args = cfg
    if panic:
        st.violate("panic", None, {"args": args, "panic": panic}, {"args": args})
        return
    exp, w = expected(cwd, roots, mode, m or 0, n, df, deny)
    got = collections.Counter(p.decode("utf-8", "surrogateescape") for p in out.split(b"\0")[:-1]) if out else collections.Counter()
    if any(0xDC80 <= ord(ch) <= 0xDCFF for p_ in exp for ch in p_):
        # paths with bytes that are not UTF-8 are printed with U+FFFD: compare both sides after the same conversion
        lossy = lambda t_: os.fsencode(t_).decode("utf-8", "replace")
        exp = collections.Counter({})
        for p_, c_ in list(expected(cwd, roots, mode, m or 0, n, df, deny)[0].items()):
            exp[lossy(p_)] += c_
        w.optional = set(lossy(p_) for p_ in w.optional)
    if out and not out.endswith(b"\0"):
        st.violate("unterminated-output", None, {"args": args, "out": out[-80:]}, {"args": args})
    st.inc("evaluations")
    lead = [x for x in args[1:4] if x in ("-P", "-H", "-L")]
    if len(lead) > 1:
        st.inc("runs_with_overridden_follow_option")
    if args.count("-maxdepth") > 1 or args.count("-mindepth") > 1:
        st.inc("runs_with_repeated_depth_option")
    st.inc("entries_compared", sum(exp.values()))
    st.add("distinct", (mode, m, n, df, len(roots), tuple(sorted(exp))[:6], len(exp)))
    st.add("config_tuples", (mode, m, n, df))
    if m is not None and n is not None and m > n:
        st.inc("runs_min_gt_max")
    kinds = set(k for k, _, _ in w.errors)
    for k in kinds:
        st.inc("runs_with_error:" + k)
    problems = []
    for p in set(exp) | set(got):
        if p in w.optional:
            if got[p] > max(1, exp[p]):
                problems.append("optional path %r printed %d times" % (p, got[p]))
            continue
        if exp[p] != got[p]:
            problems.append("path %r expected %d times, printed %d times" % (p, exp[p], got[p]))
    if not w.out_of_domain:
        must_fail = any(not opt for _, _, opt in w.errors)
        may_fail = bool(w.errors)
        if must_fail and code == 0:
            problems.append("exit status 0 although %r" % (w.errors[:3],))
        if must_fail and not err.strip():
            problems.append("no diagnostic although %r" % (w.errors[:3],))
        if not may_fail and code != 0:
            problems.append("exit status %r without any modelled error; stderr=%r" % (code, err[-200:]))
    else:
        st.inc("runs_exit_not_judged(ELOOP/EACCES link)")
    if problems:
        st.violate("visit-set-differs", None,
                   {"args": args, "problems": problems[:6], "errors_modelled": w.errors[:5], "exit": code,
                    "stderr": err[-300:], "vehicle": vehicle}, {"args": args, "cwd": cwd})
    if st.c["evaluations"] % 211 == 1:
        st.sample({"args": args, "printed": sum(got.values()), "exit": code})


def gen_configs(rng, roots_pool, maxd, count, full=False):
    cfgs = []
    for _ in range(count):
        mode = rng.choice(MODES)
        k = rng.random()
        if k < 0.25:
            m, n = None, None
        elif k < 0.4:
            m, n = rng.randint(0, maxd + 1), None
        elif k < 0.55:
            m, n = None, rng.randint(0, maxd + 1)
        else:
            m, n = rng.randint(0, maxd + 1), rng.randint(0, maxd + 1)
        nr = rng.choice([1, 1, 1, 2, 2, 3])
        roots = [rng.choice(roots_pool) for _ in range(nr)]
        df = rng.random() < 0.4
        cfgs.append([roots, mode, m, n, df, None])
    return cfgs


def worker(job):
    k, ntrees, ncfg, seed, max_nodes, nbinary = job
    st = Stats()
    rng = common.rng_for(seed, "C02", k)
    base = common.mkscratch("C02w%d" % k)
    try:
        for t in range(ntrees):
            sb = os.path.join(base, "t%d" % t)
            os.makedirs(sb)
            os.chmod(sb, 0o755)
            fault = (t % 5 == 4)
            nodes = treegen.random_tree(rng, "r", max_nodes=rng.choice([5, 12, max_nodes]), max_depth=5,
                                        link_kinds=() if fault else ("file", "dir", "dir", "dangling", "ancestor", "ancestor",
                                                                     "outside", "self", "chain"),
                                        p_link=0.3, special=True)
            if not fault and rng.random() < 0.2:
                # names that are not valid UTF-8, on unresolvable links (dangling, or through a regular file) and on a directory
                # that contains one: under -L such a link is still visited as a link (printed lossily, compared the same way)
                rdirs = [n.path for n in nodes if n.kind == "d"]
                rawd = rng.choice(rdirs) + "/d\udcff"
                nodes.append(treegen.Node(rawd, "d"))
                nodes.append(treegen.Node(rawd + "/dang", "l", target="nowhere"))
                nodes.append(treegen.Node(rng.choice(rdirs) + "/l\udce9", "l", target="missing\udcfe"))
                nodes.append(treegen.Node(rng.choice(rdirs) + "/n\udc80d", "l", target="../plain/x"))
                st.inc("trees_with_non_utf8_names")
            nodes.append(treegen.Node("lroot", "l", target="r"))
            nodes.append(treegen.Node("lfile", "l", target="r/" + "nofile"))
            nodes.append(treegen.Node("plain", "f", size=1))
            treegen.build(sb, nodes)
            ok_name = lambda p_: not any(0xDC80 <= ord(ch) <= 0xDCFF for ch in p_)       # (starting points must be valid UTF-8)
            dirs = [n.path for n in nodes if n.kind == "d" and n.path.startswith("r") and ok_name(n.path)]
            links = [n.path for n in nodes if n.kind == "l" and n.path.startswith("r/") and ok_name(n.path)]
            maxd = max(p.count("/") for p in [n.path for n in nodes if n.path.startswith("r")])
            pool = ["r", "r", "r", "lroot", "plain", "lfile", "missing"] + dirs[:4] + links[:3]
            st.inc("trees")
            if any(n.kind == "l" and n.path.startswith("r/") for n in nodes):
                st.inc("trees_with_links")
            deny = []
            uid = None
            if fault:
                # (sometimes the starting point itself is the directory that cannot be listed: it is still evaluated - last, under -depth)
                cand = [d for d in dirs if d != "r"] + (["r"] if rng.random() < 0.25 else [])
                if cand:
                    dd = rng.choice(cand)
                    os.chmod(os.path.join(sb, dd), 0)
                    deny = [dd]
                    uid = 65534
                    st.inc("trees_with_unreadable_dir")
                    if dd == "r":
                        st.inc("trees_whose_starting_point_is_unreadable")
                    pool = ["r", "r", "plain", "missing"] + [d for d in dirs if not (d + "/").startswith(dd + "/")][:3]
            cfgs = gen_configs(rng, pool, maxd, ncfg)
            cases = []
            for i, c in enumerate(cfgs):
                c[5] = build_args(c[0], c[1], c[2], c[3], c[4], rng)
                cases.append(("%d_%d_%d" % (k, t, i), c[5]))
            res = common.run_find_inproc(cases, base, sb, uid=uid)
            for (cid, _), c in zip(cases, cfgs):
                r = res[cid]
                if r.special:
                    st.violate("hang-or-crash", None, {"args": c[5], "what": r.special, "msg": r.panic}, {"args": c[5]})
                    continue
                judge(st, c, sb, r.code, r.out, r.fd2, r.panic, "in-process", deny)
            for c in cfgs[:nbinary]:
                rc, out, err, to = common.run_cmd([common.FIND] + c[5][1:], cwd=sb, env=common.clean_env(), timeout=60,
                                                  preexec_fn=common.drop_to(uid) if uid else None)
                if to:
                    # a wall-clock watchdog on a loaded machine is not a verdict: the walk has no side effects, so it is run again
                    # with a fifteen-minute watchdog; only a second expiry is reported as a hang
                    st.inc("watchdog_expiries_rerun")
                    rc, out, err, to = common.run_cmd([common.FIND] + c[5][1:], cwd=sb, env=common.clean_env(), timeout=900,
                                                      preexec_fn=common.drop_to(uid) if uid else None)
                    if to:
                        st.violate("hang", None, {"args": c[5], "watchdog": "60 s, then 900 s"}, {"args": c[5], "tree": [n.to_json() for n in nodes]})
                        continue
                st.inc("binary_runs")
                judge(st, c, sb, rc, out, err, ("exit %d" % rc) if rc in (101, 134, -6, -11) else None, "binary", deny)
            common.force_rmtree(sb)
    finally:
        common.force_rmtree(base)
    return st


def many_errors_worker(job):
    """Hundreds of entries that cannot be examined in one walk (links that close a directory cycle, under -L): each is diagnosed, the
    others are all visited, and the exit status is non-zero - whether there are 255, 256, 257 or 512 of them."""
    k, counts, seed = job
    st = Stats()
    base = common.mkscratch("C02e%d" % k)
    try:
        for n in counts:
            sb = os.path.join(base, "e%d" % n)
            os.makedirs(os.path.join(sb, "r", "sub"))
            for i in range(n):
                os.symlink(".", os.path.join(sb, "r", "loop%04d" % i))
            for nm in ("a", "sub/b", "zz"):
                open(os.path.join(sb, "r", nm), "w").close()
            rc, out, err, to = common.run_cmd([common.FIND, "-L", "r", "-print0"], cwd=sb, env=common.clean_env(), timeout=120)
            got = set(out.split(b"\0")[:-1])
            st.inc("evaluations")
            st.inc("walks_with_hundreds_of_errors")
            st.add("distinct", ("many-errors", n))
            problems = []
            if rc == 0 or to:
                problems.append("exit status %r although %d entries could not be followed" % (rc, n))
            if not {b"r", b"r/a", b"r/sub", b"r/sub/b", b"r/zz"} <= got:
                problems.append("entries missing: %r" % sorted({b"r", b"r/a", b"r/sub", b"r/sub/b", b"r/zz"} - got))
            if err.count(b"\n") < n:
                problems.append("%d diagnostic lines for %d cycle-closing links" % (err.count(b"\n"), n))
            if problems:
                st.violate("visit-set-differs", None, {"args": ["find", "-L", "r", "-print0"], "cycle_closing_links": n, "problems": problems, "exit": rc},
                           {"args": ["find", "-L", "r", "-print0"], "n": n})
            common.force_rmtree(sb)
    finally:
        common.force_rmtree(base)
    return st


def self_check(base):
    d = os.path.join(base, "sc")
    os.makedirs(d)
    treegen.build(d, [treegen.Node("r", "d"), treegen.Node("r/a", "d"), treegen.Node("r/a/f", "f"),
                      treegen.Node("r/l", "l", target="a"), treegen.Node("r/a/up", "l", target=".."),
                      treegen.Node("r/dang", "l", target="zz")])
    exp, w = expected(d, ["r"], "P", 0, None, False)
    assert sorted(exp) == ["r", "r/a", "r/a/f", "r/a/up", "r/dang", "r/l"], exp
    exp, w = expected(d, ["r"], "L", 0, None, False)
    assert sorted(p for p in exp if p not in w.optional) == ["r", "r/a", "r/a/f", "r/dang", "r/l", "r/l/f"], (exp, w.optional)
    assert {k for k, _, _ in w.errors} == {"loop"}, w.errors
    exp, w = expected(d, ["r"], "P", 2, 1, False)
    assert not exp


def run(ctx):
    ctx.rule = ("random trees with links (to files, directories, dangling, ancestor, outside, self, chains), fifos/sockets; "
                "1-3 starting points incl. links, files, missing; follow mode (also given after other, overridden -P/-H/-L options) x "
                "(mindepth,maxdepth) incl. min>max and options given twice x -depth; "
                "every 5th tree has a mode-000 directory and is walked as uid 65534; distinct = (mode,m,n,depth,roots,expected set)")
    ctx.assumptions = ["reference walk lib/refwalk.py (self-checked)", "tmpfs", "cycle-closing links and unreadable directories themselves are optional in the output"]
    try:
        self_check(ctx.scratch())
    except AssertionError as e:
        raise common.Inconclusive("oracle self-check failed: %r" % (e,))
    ntrees = ctx.scale(320, 9600)
    nw = common.NCPU
    jobs = [(k, ntrees // nw, ctx.scale(10, 16), ctx.seed, ctx.scale(40, 300), 1) for k in range(nw)]
    ctx.pmap(worker, jobs)
    ctx.pmap(many_errors_worker, [(k, c_, ctx.seed) for k, c_ in enumerate([[255], [256], [257], [512], [1, 2], [768]])])
    import deep
    ctx.pmap(deep.deep_worker, [("visit", k, 1 if ctx.quick else 6, ctx.seed) for k in range(common.NCPU)])
    ctx.require("runs_over_a_tree_deeper_than_the_open_files_limit", 8)
    for key in ("runs_min_gt_max", "runs_with_error:loop", "runs_with_error:unreadable", "runs_with_error:missing",
                "trees_with_links", "binary_runs", "runs_with_overridden_follow_option", "runs_with_repeated_depth_option"):
        ctx.require(key, 3)
