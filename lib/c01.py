"""C01 — find expression semantics: precedence, short-circuit, default -print, -quit.

Monitor: reference evaluation (refeval over refwalk) of the same token list; the observation is the
byte sequence each labelled action produced (stdout, -fprint* files, recorder log for -exec)."""
import os

import sys

import common
import exprgen
import refeval
import refwalk
import treegen
from common import Stats, Inconclusive
from exprgen import P

NAME_PATS = ["a", "b", "a*", "*b", "*.txt", "?", "??", "[ab]", "[!a]*", "*", "x.txt", "A", ".h*", "é", "*a*", "d", "c"]


def t_name(rng, g):
    return P(rng.choice(["-name", "-name", "-iname"]), rng.choice(NAME_PATS))


def t_path(rng, g):
    return P(rng.choice(["-path", "-ipath", "-wholename"]), rng.choice(["r/a*", "*/b", "*a/*", "r", "r/*", "*/*/*", "*.txt", "r/?/?"]))


def t_type(rng, g):
    return P("-type", rng.choice("fdl"))


def t_size(rng, g):
    return P("-size", rng.choice(["0", "+0", "-1", "1", "+1", "1c", "+511c", "-2", "2", "1k", "+1k", "-1k"]))


def t_const(rng, g):
    return P(rng.choice(["-true", "-false"]))


def t_misc(rng, g):
    return rng.choice([P("-empty"), P("-perm", "644"), P("-perm", "-100"), P("-perm", "/022"), P("-links", "1"),
                       P("-links", "+1"), P("-xtype", rng.choice("fdl"))])


TESTS = [t_name, t_name, t_name, t_path, t_type, t_type, t_size, t_const, t_const, t_misc]


def a_print(rng, g):
    return P(rng.choice(["-print", "-print", "-print0"]))


def a_printf(rng, g):
    g.nlab += 1
    return P("-printf", "L%d:%%p\\n" % g.nlab)


def a_fprint(rng, g):
    g.nlab += 1
    f = "F%s_%d" % (g.cid, g.nlab)
    g.files.append(f)
    k = rng.random()
    if k < 0.4:
        return P("-fprint", f)
    if k < 0.6:
        return P("-fprint0", f)
    if k < 0.85:
        return P("-fprintf", f, "f%d:%%p\\n" % g.nlab)
    return P("-fls", f)


def a_ls(rng, g):
    return P("-ls")


def a_devfull(rng, g):
    # an action whose write fails (the device is full): diagnosed, exit status non-zero - and the action is still TRUE, so whatever
    # follows it, negates it or sits in an -o alternative behaves as if the write had worked
    g.nlab += 1
    g.devfull = True
    k = rng.random()
    if k < 0.4:
        return P("-fprint", "/dev/full")
    if k < 0.6:
        return P("-fprint0", "/dev/full")
    return P("-fprintf", "/dev/full", "f%d:%%p\n" % g.nlab)


def a_exec(rng, g):
    if g.nexec >= 2:
        return a_printf(rng, g)
    g.nexec += 1
    g.nlab += 1
    tag = "X%s_%d" % (g.cid, g.nlab)
    if rng.random() < 0.25:
        g.has_plus = True
        return P("-exec", common.REC, tag, "{}", "+")
    return P("-exec", common.REC, tag, "{}", ";")


def a_prune(rng, g):
    return P("-prune")


def a_quit(rng, g):
    return P("-quit")


def a_dead_delete(rng, g):
    return ("and", [P("-false"), P("-delete")])


ACTIONS = [a_print, a_print, a_printf, a_printf, a_printf, a_fprint, a_ls, a_exec, a_prune, a_prune, a_quit, a_devfull]


def o_depthopt(rng, g):
    return P(rng.choice(["-maxdepth", "-mindepth"]), str(rng.choice([0, 1, 1, 2, 2, 3])))


def o_misc(rng, g):
    return rng.choice([P("-depth"), P("-d"), P("-noleaf"), P("-xdev"), P("-daystart"), P("-mount"),
                       P("-regextype", rng.choice(["emacs", "posix-extended", "grep"]))])


OPTIONS = [o_depthopt, o_misc, o_misc]

sys.setrecursionlimit(20000)          # the reference parser/evaluator recurse once per nesting level (up to 200 here)

STRATA = ["random", "random", "random", "noaction", "nested_only", "negated_action", "unreachable_and", "paren_operand", "nest_at_limit",
          "unreachable_or", "prune_quit_only", "quit_first", "quit_middle", "quit_last", "quit_in_not", "quit_in_or",
          "quit_in_list", "dead_delete", "deep"]


def gen_case(rng, cid, maxdepth):
    stratum = rng.choice(STRATA)
    g = exprgen.Gen(rng, TESTS, ACTIONS, OPTIONS, maxdepth=maxdepth)
    g.cid, g.nlab, g.files, g.nexec, g.has_plus = cid, 0, [], 0, False
    g.devfull = False
    noact = exprgen.Gen(rng, TESTS, [a_prune, a_quit] if stratum == "prune_quit_only" else [], OPTIONS,
                        p_action=0.25, maxdepth=max(2, maxdepth - 1))
    noact.cid, noact.nlab, noact.files, noact.nexec, noact.has_plus = cid, 100, g.files, 0, False
    if stratum == "random":
        ast = g.node()
    elif stratum == "deep":
        g.maxdepth = maxdepth + 2
        ast = g.node()
    elif stratum in ("noaction", "prune_quit_only"):
        ast = noact.node()
    elif stratum == "nested_only":
        ast = ("or", [noact.node(1), ("and", [noact.node(2), ("not", ("and", [noact.node(2), a_printf(rng, g)]))])])
    elif stratum == "negated_action":
        ast = ("and", [noact.node(1), ("not", rng.choice([a_print, a_printf])(rng, g))])
        if rng.random() < 0.5:
            ast = ("or", [ast, noact.node(1)])
    elif stratum == "unreachable_and":
        ast = rng.choice([
            lambda: ("and", [P("-false"), a_printf(rng, g)]),
            lambda: ("list", [noact.node(1), ("and", [P("-false"), a_print(rng, g)])]),
            lambda: ("or", [noact.node(1), ("and", [("not", P("-true")), a_fprint(rng, g)])]),
        ])()
    elif stratum == "unreachable_or":
        ast = rng.choice([
            lambda: ("or", [P("-true"), a_printf(rng, g)]),
            lambda: ("and", [noact.node(1), ("or", [P("-true"), a_print(rng, g)])]),
            lambda: ("or", [("not", P("-false")), a_ls(rng, g)]),
        ])()
    elif stratum == "quit_first":
        ast = ("and", [P("-quit"), g.node(1)])
    elif stratum == "quit_middle":
        ast = ("and", [a_printf(rng, g), noact.node(2), P("-quit"), a_printf(rng, g)])
        if rng.random() < 0.5:
            ast = ("list", [ast, a_printf(rng, g)])
    elif stratum == "quit_last":
        ast = (rng.choice(["and", "list"]), [g.node(1), P("-quit")])
    elif stratum == "quit_in_not":
        ast = ("list", [("and", [t_name(rng, g), ("not", P("-quit"))]), a_printf(rng, g)])
    elif stratum == "quit_in_or":
        ast = ("and", [("or", [noact.node(2), P("-quit"), a_printf(rng, g)]), a_printf(rng, g)])
    elif stratum == "quit_in_list":
        ast = ("and", [("list", [a_printf(rng, g), ("and", [t_name(rng, g), P("-quit")]), a_printf(rng, g)]), a_print(rng, g)])
    elif stratum == "dead_delete":
        ast = rng.choice([
            lambda: ("and", [noact.node(1), a_dead_delete(rng, g)]),
            lambda: ("or", [("and", [P("-false"), P("-delete")]), noact.node(1)]),
            lambda: ("list", [a_dead_delete(rng, g), g.node(1)]),
        ])()
    toks = exprgen.render(ast, rng) if stratum not in ("paren_operand", "nest_at_limit") else None
    if stratum == "paren_operand":
        # a group whose last word is an operand spelled like a parenthesis: ( ... -name '(' ) is a well-formed group
        inner = rng.choice([["-name", "("], ["-type", "f", "-o", "-name", "("], ["-name", "*a*", "-o", "-path", "("], ["!", "-name", ")", "-name", "("],
                            ["-name", ")"], ["-type", "d", "-printf", "D:%p\\n", "-o", "-name", "("],
                            # (round 9) the operand of any primary is taken as it stands, also when it is spelled like an operator
                            ["-printf", ")"], ["-name", "*a*", "-printf", "("], ["-type", "f", "-printf", ","], ["-printf", "!"],
                            ["-type", "d", "-o", "-printf", "-o"], ["-printf", "-a"], ["-name", "!", "-o", "-printf", ")"],
                            ["-path", ",", "-o", "-iname", "-o", "-o", "-printf", "-not"]])
        toks = rng.choice([["("] + inner + [")", "-o", "-printf", "N:%p\\n"], ["!", "("] + inner + [")", "-printf", "M:%p\\n"],
                           ["(", "("] + inner + [")", ")", "-o", "-name", "*", "-printf", "K:%p\\n"],
                           inner + ["-o", "-printf", "T:%p\\n"], inner])
    if stratum == "nest_at_limit":
        # parentheses nested as deep as the parser allows (200) and one less: still an ordinary expression
        k_ = rng.choice([199, 200, 200, 150])
        body = rng.choice([["-name", "*a*"], ["-type", "f"], ["-true"]])
        toks = rng.choice([["("] * k_ + body + [")"] * k_ + ["-printf", "Z:%p\\n"], ["!", "("] * (k_ // 1) + body + [")"] * k_ + ["-printf", "Y:%p\\n"]])
    # one starting point, or the same tree walked twice / a second starting point (what -quit stops includes later starting points)
    roots = ["r"] if rng.random() < 0.75 else rng.choice([["r", "r"], ["r", "r", "r"], ["r", "r/."], ["./r", "r"]])
    return {"id": cid, "stratum": stratum, "toks": ["-sorted"] + toks, "files": g.files, "has_plus": g.has_plus, "roots": roots,
            "devfull": g.devfull}


def exec_truth(argv, e):
    return refeval.rec_chain(argv[1:]) % 2 == 0


def reference(case, cwd, roots=("r",)):
    """Reference evaluation: returns (env, opts, ast, visited_count)."""
    ast = refeval.Parser(case["toks"]).parse()
    opts = refeval.global_options(ast)
    top = ast if refeval.has_action(ast) else ("and", [ast, ("prim", "-print", (), None)])
    env = refeval.Env(cwd, exec_truth=exec_truth)
    visited = [0]

    def on_visit(e):
        env.prune = False
        refeval.evaluate(top, e, env)
        visited[0] += 1
        if env.quit:
            raise refwalk.StopWalk()
        return env.prune

    w = refwalk.Walk(case.get("mode", "P"), opts["mindepth"], opts["maxdepth"], opts["depth_first"], True, cwd)
    w.xdev = bool(case.get("xdev"))
    try:
        for r in roots:
            w.run(r, on_visit)
    except refwalk.StopWalk:
        pass
    return env, opts, ast, visited[0], w


def judge(case, cwd, stdout, code, panic, reclog, st, vehicle):
    """Compare one observed execution with the reference evaluation."""
    toks = case["toks"]
    if panic:
        st.violate("panic", None, {"args": toks, "panic": panic, "vehicle": vehicle}, {"case": case})
        return
    env, opts, ast, nvis, w = reference(case, cwd, case.get("roots", ["r"]))
    if len(case.get("roots", ["r"])) > 1:
        st.inc("runs_with_several_starting_points")
        if env.evaluated_quit:
            st.inc("quit_with_several_starting_points")
    st.inc("evaluations")
    st.inc("stratum:" + case["stratum"])
    st.add("distinct", refeval.shape(ast))
    if not refeval.has_action(ast):
        st.inc("default_print_applied")
    else:
        st.inc("default_print_not_applied")
    if env.evaluated_quit:
        st.inc("quit_evaluated")
    if opts["depth_first"]:
        st.inc("depth_first_runs")
    st.inc("entries_evaluated", nvis)
    problems = []
    d = refeval.match_chunks(stdout, env.sinks.get("stdout", []))
    if d:
        problems.append("stdout: " + d)
    for f in case["files"]:
        try:
            with open(os.path.join(cwd, f), "rb") as fh:
                got = fh.read()
        except FileNotFoundError:
            problems.append("file %s not created" % f)
            continue
        d = refeval.match_chunks(got, env.sinks.get(f, []))
        if d:
            problems.append("file %s: %s" % (f, d))
    # -exec ... ; : sequence of invocations per tag; -exec ... + : concatenated arguments per tag
    exp = {}
    for (name, d_, argv, path) in env.exec_log:
        exp.setdefault(argv[1], []).append(argv[1:])
    for _, (node, items) in env.plus.items():
        tag = node[2][1]
        exp.setdefault(tag, [])
        exp[tag] = ("plus", [p for (_, p, _) in items])
    got = {}
    for rcwd, argv in reclog:
        if argv and argv[0].startswith("X%s_" % case["id"]):
            got.setdefault(argv[0], []).append(argv)
    for tag, e in exp.items():
        g = got.get(tag, [])
        if isinstance(e, tuple):
            flat = [a for argv in g for a in argv[1:]]
            if flat != e[1]:
                problems.append("exec+ %s: expected args %r, observed %r" % (tag, e[1][:10], flat[:10]))
            st.inc("exec_plus_args", len(flat))
        else:
            if g != e:
                problems.append("exec; %s: expected %d runs %r, observed %d %r" % (tag, len(e), e[:4], len(g), g[:4]))
            st.inc("exec_single_runs", len(g))
    for tag in got:
        if tag not in exp:
            problems.append("unexpected exec %s" % tag)
    failed_writes = len(env.sinks.get("/dev/full", []))
    if failed_writes:
        st.inc("runs_with_an_action_whose_write_fails")
    if not case["has_plus"] and code != (1 if failed_writes else 0):
        problems.append("exit status %r, expected %d" % (code, 1 if failed_writes else 0))
    if problems:
        minmax = opts["maxdepth"] is not None and opts["mindepth"] > opts["maxdepth"]
        st.violate("output-differs", None,
                   {"args": ["find"] + case.get("roots", ["r"]) + toks, "stratum": case["stratum"], "problems": problems[:4],
                    "expected_stdout": refeval.expected_bytes(env.sinks.get("stdout", []))[:600],
                    "observed_stdout": stdout[:600], "vehicle": vehicle, "min_gt_max": minmax},
                   {"case": case, "tree": None})
    if st.c["evaluations"] % 97 == 1:
        st.sample({"args": ["find", "r"] + toks, "stdout": stdout[:200]})


def read_reclog(path):
    out = []
    try:
        with open(path) as f:
            for line in f:
                fs = line.rstrip("\n").split("\t")
                out.append((common.unhx(fs[1]).decode("utf-8", "surrogateescape"),
                            [common.unhx(x).decode("utf-8", "surrogateescape") for x in fs[2:]]))
    except FileNotFoundError:
        pass
    return out


SELF_TABLE = [
    # (tokens, expected stdout) on the fixed tree r/{a/{x.txt,b},b,c.txt}
    (["-sorted"], b"r\nr/a\nr/a/b\nr/a/x.txt\nr/b\nr/c.txt\n"),
    (["-sorted", "-name", "b", "-o", "-name", "a", "-print"], b"r/a\n"),
    (["-sorted", "-false", "-o", "-name", "b"], b"r/a/b\nr/b\n"),
    (["-sorted", "!", "-name", "b", "-name", "*.txt"], b"r/a/x.txt\nr/c.txt\n"),
    (["-sorted", "-name", "a", "-prune", "-o", "-print"], b"r\nr/b\nr/c.txt\n"),
    (["-sorted", "-printf", "1:%p\\n", ",", "-name", "b", "-printf", "2:%p\\n"],
     b"1:r\n1:r/a\n1:r/a/b\n2:r/a/b\n1:r/a/x.txt\n1:r/b\n2:r/b\n1:r/c.txt\n"),
    (["-sorted", "-name", "a", "-print", "-quit"], b"r/a\n"),
    (["-sorted", "(", "-name", "x.txt", "-o", "-name", "b", ")", "-type", "f"], b"r/a/b\nr/a/x.txt\nr/b\n"),
    (["-sorted", "-depth", "-name", "a", "-o", "-name", "b"], b"r/a/b\nr/a\nr/b\n"),
    (["-sorted", "-false", "-print"], b""),
    (["-sorted", "-true", "-o", "-print"], b""),
    (["-sorted", "-maxdepth", "1", "-type", "d"], b"r\nr/a\n"),
    (["-sorted", "-mindepth", "2"], b"r/a/b\nr/a/x.txt\n"),
    (["-sorted", "!", "(", "-name", "a", "-o", "-name", "r", ")", ",", "-name", "a"], b"r/a\n"),
    (["-sorted", "-quit", ",", "-print"], b""),
]


def self_check(base):
    d = os.path.join(base, "selfcheck")
    os.makedirs(d)
    treegen.build(d, [treegen.Node("r", "d"), treegen.Node("r/a", "d"), treegen.Node("r/a/x.txt", "f", size=3),
                      treegen.Node("r/a/b", "f"), treegen.Node("r/b", "f", size=600), treegen.Node("r/c.txt", "f")])
    for toks, want in SELF_TABLE:
        case = {"id": "s", "toks": toks, "files": [], "stratum": "self", "has_plus": False}
        env, opts, ast, n, w = reference(case, d)
        got = refeval.expected_bytes(env.sinks.get("stdout", []))
        if got != want:
            raise Inconclusive("oracle self-check failed for %r: %r != %r" % (toks, got, want))


def worker(job):
    k, ncases, seed, maxdepth, nbinary, tree_nodes = job
    st = Stats()
    rng = common.rng_for(seed, "C01", k)
    base = common.mkscratch("C01w%d" % k)
    try:
        done = 0
        tno = 0
        while done < ncases:
            tno += 1
            sb = os.path.join(base, "t%d" % tno)
            os.makedirs(sb)
            nodes = treegen.random_tree(rng, "r", max_nodes=rng.choice([4, 8, 15, tree_nodes]), max_depth=4,
                                        link_kinds=("file", "dangling", "dir"))
            treegen.build(sb, nodes)
            before = treegen.snapshot(os.path.join(sb, "r"))
            batch = min(ncases - done, 60)
            cases = [gen_case(rng, "%d_%d_%d" % (k, tno, i), maxdepth) for i in range(batch)]
            reclog_path = os.path.join(sb, "rec.log")
            env = dict(os.environ)
            env.update({"VERIF_REC_LOG": reclog_path, "VERIF_REC_FN": "mod:2"})
            lines = [common.find_case(c["id"], ["find"] + c["roots"] + c["toks"]) for c in cases]
            raw = common.run_vh("find", lines, base, cwd=sb, env=env)
            reclog = read_reclog(reclog_path)
            for c in cases:
                r = common.FindResult(raw[c["id"]])
                if r.special:
                    st.violate("hang-or-crash", None, {"args": c["toks"], "what": r.special, "msg": r.panic}, {"case": c})
                    continue
                judge(c, sb, r.out, r.code, r.panic, reclog, st, "in-process")
            st.inc("trees")
            # the same cases through the real binary (sample)
            for c in cases[:nbinary]:
                for f in c["files"]:
                    try:
                        os.unlink(os.path.join(sb, f))
                    except FileNotFoundError:
                        pass
                rl = os.path.join(sb, "rec-b.log")
                for p in (rl, rl + ".n"):
                    if os.path.exists(p):
                        os.unlink(p)
                e2 = common.clean_env({"VERIF_REC_LOG": rl, "VERIF_REC_FN": "mod:2"})
                rc, out, err, to = common.run_cmd([common.FIND] + c["roots"] + c["toks"], cwd=sb, env=e2, timeout=60)
                if to:
                    st.violate("hang", None, {"args": c["toks"]}, {"case": c})
                    continue
                st.inc("binary_runs")
                judge(c, sb, out, rc, ("exit %d: %s" % (rc, err[-200:])) if rc in (101, 134, -6, -11) else None,
                      read_reclog(rl), st, "binary")
            for c in cases:
                for f in c["files"]:
                    try:
                        os.unlink(os.path.join(sb, f))
                    except FileNotFoundError:
                        pass
            after = treegen.snapshot(os.path.join(sb, "r"))
            if after != before:
                st.violate("tree-modified", None, {"tree": sb, "diff": sorted(set(before.items()) ^ set(after.items()), key=repr)[:5]}, None)
            done += batch
            common.force_rmtree(sb)
    finally:
        common.force_rmtree(base)
    return st


def run(ctx):
    ctx.rule = ("random expression ASTs over the full grammar (tests, labelled actions, options, !, -a/juxtaposition, "
                "-o, ',', parentheses), stratified (default-print / nested / negated / unreachable actions, -quit "
                "positions, dead -delete), each run on a random tree through the real find_main in-process and a "
                "sample through the binary; distinct = operator-shape signature of the parsed expression")
    ctx.assumptions = ["reference evaluator lib/refeval.py + lib/refwalk.py (self-checked against a hand-derived table)",
                       "glibc fnmatch for -name/-path inside expressions", "trees on tmpfs"]
    base = ctx.scratch()
    self_check(base)
    if ctx.replay:
        import json
        rp = json.load(open(ctx.replay))
        raise Inconclusive("replay: re-run the printed argv by hand against the tree spec in %s" % ctx.replay)
    n = ctx.scale(24000, 2400000)
    nw = common.NCPU
    per = n // nw
    jobs = [(k, per, ctx.seed, ctx.scale(5, 7), ctx.scale(2, 2), ctx.scale(25, 40)) for k in range(nw)]
    ctx.pmap(worker, jobs)
    for s in ("default_print_applied", "default_print_not_applied", "quit_evaluated", "binary_runs", "depth_first_runs"):
        ctx.require(s, 5)
