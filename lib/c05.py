"""C05 — xargs input splitting: quoting, -0/-d, independence from read() chunking.

Monitors: (1) online chunking-independence checker inside the harness (hook xargs::verif::split): every chunking of
an input must give the unchunked result; (2) reference tokenizer (lib/xref.py) judging the unchunked result of every
input; (3) the same through the real binary fed by a writer that flushes in the chosen chunk sizes."""
import os

import common
import xref
from common import Stats, hx, unhx

# the 2-byte letter is 'à' (C3 A0): its continuation byte is NBSP when mis-read as Latin-1; it is an ordinary character here
ALPHA_DEFAULT = [b"a", "à".encode(), b" ", b"\n", b"\t", b"'", b'"', b"\\"]
ALPHA_CRFF = [b"a", b" ", b"\n", b"\r", b"\f", b"'", b"\\"]
ALPHA_RAW = [b"a", b"\xe9", b"\xc3", b"\xa9", b" ", b"\n", b"'", b"\\"]         # 0xc3 0xa9 = é; alone they are invalid UTF-8
ALPHA_RAW_NUL = [b"a", b"\xe9", b"\xc3", b"\xa9", b"\0", b" ", b"\n"]
ALPHA_NUL = [b"a", "à".encode(), b"\0", b"'", b"\\", b" ", b"\n", b'"']
ALPHA_COMMA = [b"a", "à".encode(), b",", b"'", b"\\", b" ", b"\n", b'"']


def parse_tokens(s):
    if not s:
        return []
    out = []
    for t in s.split(","):
        h, k = t.split(":")
        out.append((unhx(h), k == "H"))
    return out


def judge_default(st, data, status, payload, source, replay):
    """Judge one unchunked result against the reference tokenizer."""
    ref = xref.tokenize(data)
    st.inc("inputs_judged_total")
    if status == "panic":
        st.violate("panic", None, {"input": data, "panic": unhx(payload).decode("utf-8", "replace")}, replay)
        return
    alt = None
    if ref.other_ws and b"\v" not in data and b"\0" not in data and (b"\r" in data or b"\f" in data):
        # CR / FF: "blank" or ordinary byte? The statement leaves that to ctype; either reading is accepted, but nothing else -
        # in particular no reading makes CR or FF the end of an input line
        alt = xref.tokenize(data, extra_seps=b"\r\f")
        if ref.in_domain_apart_from_other_ws and alt.in_domain and (ref.error is None) == (alt.error is None):
            st.inc("inputs_with_CR_or_FF_judged_under_both_readings")
        else:
            alt = None
    if alt is None and not ref.in_domain and ref.error is None:
        ref2 = xref.tokenize(data[:-1]) if ref.trailing_backslash else None
        if ref2 is not None and ref2.in_domain and ref2.error is None and status == "ok":
            # what a backslash at the very end of the input quotes is not stated (dropped, or kept as a character); that nothing
            # appears which is not in the input is: no empty argument may come out of it
            st.inc("inputs_ending_in_a_backslash_checked_for_spurious_arguments")
            got = parse_tokens(payload)
            base = [t_ for t_, _ in ref2.tokens]
            ok = [t_ for t_, _ in got] in (base, base + [b"\\"], base[:-1] + [base[-1] + b"\\"] if base and not data[:-1].endswith((b" ", b"\t", b"\n")) else base)
            if not ok:
                st.violate("spurious-empty-argument" if any(t_ == b"" for t_, _ in got) else "tokens-differ", None,
                           {"input": data, "observed": got, "reference_without_the_backslash": ref2.tokens, "source": source}, replay)
            return
        st.inc("out_of_domain(empty-quoted-token|newline-in-quote|trailing-backslash)")
        return
    if ref.error:
        st.inc("inputs_with_unterminated_quote")
        if status != "err":
            st.violate("unterminated-quote-not-reported", None, {"input": data, "observed": payload, "source": source}, replay)
        return
    if status == "err":
        st.violate("spurious-error", None, {"input": data, "error": unhx(payload).decode("utf-8", "replace"), "source": source}, replay)
        return
    got = parse_tokens(payload)
    st.inc("evaluations")
    if ref.tokens:
        st.add("distinct", data if len(data) < 24 else common.hashlib.sha1(data).hexdigest())
    if got != ref.tokens and not (alt is not None and got == alt.tokens):
        kind = "tokens-differ"
        if [t for t, _ in got] == [t for t, _ in ref.tokens]:
            kind = "line-end-flags-differ"
        elif [t for t in got if t[0]] == ref.tokens and any(not t[0] for t in got):
            kind = "spurious-empty-argument"
        st.violate(kind, None, {"input": data, "expected": ref.tokens, "observed": got, "source": source}, replay)
    if st.c["evaluations"] % 50021 == 7:
        st.sample({"input": data, "tokens": ref.tokens})


def judge_delim(st, data, d, status, payload, source, replay):
    if status == "panic":
        st.violate("panic", None, {"input": data, "panic": unhx(payload).decode("utf-8", "replace")}, replay)
        return
    exp = xref.split_delim(data, d)
    if status == "err":
        st.violate("spurious-error", None, {"input": data, "delim": d, "error": payload}, replay)
        return
    got = [(t, h) for t, h in parse_tokens(payload) if t]
    st.inc("evaluations")
    st.inc("delim_mode_inputs")
    if exp:
        st.add("distinct", (d, data if len(data) < 24 else common.hashlib.sha1(data).hexdigest()))
    if got != exp:
        st.violate("delimited-tokens-differ", None, {"input": data, "delim": d, "expected": exp, "observed": got, "source": source}, replay)


def exhaustive_worker(job):
    k, n, alpha, maxlen, delim, allcuts, base = job
    st = Stats()
    of = os.path.join(base, "sx-%d-%d-%s.tsv" % (delim, k, common.hashlib.sha1(b"|".join(alpha)).hexdigest()[:8]))
    rc, out, err, to = common.run_cmd([common.VH, "splitx", of, ",".join(hx(a) for a in alpha), str(maxlen), str(k), str(n),
                                       str(delim), str(allcuts)], timeout=3000)
    if rc != 0 or to:
        raise common.Inconclusive("vh splitx failed rc=%r timeout=%r %s" % (rc, to, err[-300:]))
    with open(of) as f:
        for line in f:
            fs = line.rstrip("\n").split("\t")
            if fs[0] == "IN":
                data = unhx(fs[1])
                rp = {"mode": delim, "input": fs[1], "chunks": [fs[1]]}
                if delim < 0:
                    judge_default(st, data, fs[2], fs[3] if len(fs) > 3 else "", "hook/exhaustive", rp)
                else:
                    judge_delim(st, data, delim, fs[2], fs[3] if len(fs) > 3 else "", "hook/exhaustive", rp)
            elif fs[0] == "DIFF":
                st.violate("chunking-changes-result", None,
                           {"input": unhx(fs[1]), "chunks": [("!" if c == "!" else unhx(c)) for c in fs[2].split(",")],
                            "result_with_chunks": fs[3:], "delim": delim},
                           {"mode": delim, "input": fs[1], "chunks": fs[2].split(",")})
            elif fs[0] == "PANIC":
                st.violate("panic", None, {"input": unhx(fs[1]), "panic": unhx(fs[2]).decode("utf-8", "replace")},
                           {"mode": delim, "input": fs[1]})
            elif fs[0] == "STAT":
                v = [int(x) for x in fs[1:]]
                st.inc("exhaustive_inputs", v[0])
                st.inc("input_chunking_pairs", v[1])
                st.inc("chunking_diffs", v[2])
                st.inc("cuts_inside_quote", v[3])
                st.inc("cuts_after_backslash", v[4])
                st.inc("cuts_inside_multibyte_char", v[5])
                st.inc("chunkings_with_interrupted_reads", v[6])
    os.unlink(of)
    return st


# multi-byte words include characters whose continuation bytes are 0x85 / 0xA0 (NEL / NBSP in Latin-1) and the real NBSP, NEL, and
# other Unicode blanks: in default mode only ASCII blank, tab and newline separate arguments
WORDS = [b"a", b"bc", b"x" * 7, "é".encode(), "日本".encode(), b"tok", b"w" * 40, "à".encode(), "Å".encode(), "亅".encode(), "a\u00a0b".encode(),
         "n\u0085l".encode(), "\u2003em".encode(), "ẅ\u3000".encode(), "🙂".encode(),
         # bytes that are not valid UTF-8 (file names in a legacy encoding, truncated sequences): "every other byte reaches the command unchanged"
         b"caf\xe9", b"\xff\xfe", b"\x80", b"a\xc3", b"\xe6\x97", b"\xf0\x9f\x99", b"\xc0\xaf", b"x\xa0y"]


def long_input(rng, target_len, delim=None):
    """Random input whose tokens/quotes/escapes straddle the 4096/8192 buffer edges."""
    out = bytearray()
    crff = delim is None and rng.random() < 0.3
    while len(out) < target_len:
        r = rng.random()
        if delim is not None:
            if r < 0.3:
                out += bytes([delim])
            else:
                out += rng.choice(WORDS + [b"'", b'"', b"\\", b" ", b"\n", b"a'b", b'q"r'])
            continue
        near = min(abs(len(out) - 4096), abs(len(out) - 8192)) < 12
        if r < 0.25:
            out += rng.choice([b" ", b"\n", b"\t", b"  ", b" \n", b"\n\n"] + ([b"\r", b"\f", b"\r\n", b" \r"] if crff else []))
        elif r < 0.4 or (near and r < 0.6):
            q = rng.choice([b"'", b'"'])
            inner = b" ".join(rng.choice(WORDS) for _ in range(rng.randint(1, 3)))
            inner = inner.replace(q, b"")
            out += q + inner + q
        elif r < 0.5 or (near and r < 0.8):
            out += b"\\" + rng.choice([b" ", b"'", b'"', b"\\", b"a", b"\n"])
        else:
            out += rng.choice(WORDS)
    if rng.random() < 0.12:
        # one very long field (around and beyond the 128 KiB the system accepts for one argument): the reader's business is only
        # where it ends - at the next separator, nowhere else
        sep = b" " if delim is None else bytes([delim])
        big = bytes([rng.choice(b"wxyz")]) * rng.choice([131070, 131071, 131072, 131073, 140000, 262145])
        at = rng.choice([0, len(out)])
        out[at:at] = sep + big + sep
    if rng.random() < 0.06:
        # a very long run of consecutive separators (empty fields): skipped one by one, however many there are
        sep = rng.choice([b"\n", b" "]) if delim is None else bytes([delim])
        at = rng.choice([0, len(out) // 2, len(out)])
        out[at:at] = sep * rng.choice([30000, 120000, 250000])
    if delim is None and rng.random() < 0.5:
        out += rng.choice([b"\n", b" ", b" \n"])
    return bytes(out)


def chunkings(rng, data):
    n = len(data)
    yield "whole", [data]
    for size in (4096, 4095, 4097, 7, 1000):
        yield "size%d" % size, [data[i:i + size] for i in range(0, n, size)]
    # cuts exactly at and around the buffer edges
    for edge in (4093, 4094, 4095, 4096, 4097, 4098, 4099, 8189, 8191, 8192, 8193, 8195):
        if 0 < edge < n:
            yield "edge%d" % edge, [data[:edge], data[edge:]]
    # one-byte reads around 4096, larger elsewhere
    if n > 4200:
        ch = [data[:4090]] + [data[i:i + 1] for i in range(4090, 4102)] + [data[4102:]]
        yield "onebyte@4096", ch
    sizes = []
    i = 0
    ch = []
    while i < n:
        s = rng.choice([1, 2, 3, 5, 17, 100, 4095, 4096])
        ch.append(data[i:i + s])
        i += s
    yield "random", ch
    ch2 = []
    for c in ch[:50]:
        ch2.append(c)
        ch2.append(None)
    yield "random+EINTR", ch2 + ch[50:]
    # several interrupted reads in a row - before the first byte, between chunks and before end of input
    ch3 = [None, None]
    for c in ch[:30]:
        ch3.append(c)
        ch3 += [None] * rng.choice([0, 1, 2, 3])
    yield "random+EINTRx3", ch3 + ch[30:] + [None, None, None]


def random_worker(job):
    k, ninputs, seed, base = job
    st = Stats()
    rng = common.rng_for(seed, "C05r", k)
    lines = []
    meta = {}
    for i in range(ninputs):
        mode = rng.choice([-1, -1, -1, 0, ord(","), ord(":"), 10])
        data = long_input(rng, rng.choice([4090, 4100, 8200, 9000, 300]), None if mode < 0 else mode)
        for name, ch in chunkings(rng, data):
            cid = "%d_%d_%s" % (k, i, name)
            lines.append("%s\t%d\t%s" % (cid, mode, ",".join("!" if c is None else hx(c) for c in ch if c is None or c)))
            meta[cid] = (mode, data, name, i)
    raw = common.run_vh("split", lines, base, batch_timeout=1200)
    whole = {}
    for cid, (mode, data, name, i) in meta.items():
        if name == "whole":
            whole[(k, i)] = raw[cid]
            rp = {"mode": mode, "input": hx(data), "chunks": [hx(data)]}
            if mode < 0:
                judge_default(st, data, raw[cid][0], raw[cid][1] if len(raw[cid]) > 1 else "", "hook/long", rp)
            else:
                judge_delim(st, data, mode, raw[cid][0], raw[cid][1] if len(raw[cid]) > 1 else "", "hook/long", rp)
            st.inc("long_inputs")
            if len(data) > 131000:
                st.inc("long_inputs_with_a_field_of_128KiB_or_more")
    for cid, (mode, data, name, i) in meta.items():
        if name == "whole":
            continue
        st.inc("input_chunking_pairs")
        st.inc("long_chunkings")
        if name.startswith("edge") or name.startswith("size409") or name.startswith("onebyte"):
            st.inc("cuts_at_4096_buffer_edge")
        if raw[cid] != whole[(k, i)]:
            st.violate("chunking-changes-result", None,
                       {"input_len": len(data), "chunking": name, "mode": mode, "whole": whole[(k, i)][:2][:200], "chunked": raw[cid][:2][:200]},
                       {"mode": mode, "input": hx(data), "chunking": name})
    return st


# ("\\0" is rejected by this implementation — pinned by its own unit test test_delimiter_parsing — so it is not used; -0 covers NUL)
DELIM_SPELLINGS = [(7, "\\a"), (8, "\\b"), (12, "\\f"), (10, "\\n"), (13, "\\r"), (9, "\\t"), (11, "\\v"), (92, "\\\\"),
                   (44, ","), (44, "\\x2c"), (44, "\\054"), (11, "\\x0b"), (12, "\\014"), (9, "\\x09"), (58, ":"), (97, "a"), (32, " "),
                   (10, "\\012"), (7, "\\x07"), (39, "'"), (34, '"'),
                   # bytes >= 0x80 can only be spelled as escapes; the data around them contains multi-byte characters with that byte
                   (0xff, "\\xff"), (0xff, "\\0377"), (0xa0, "\\xa0"), (0x85, "\\x85"), (0x80, "\\0200"), (0xc3, "\\xc3"), (0xa9, "\\xa9"),
                   (0x7f, "\\x7f"), (0xe9, "\\xe9")]


BAD_DELIMS = ["é", "€", "àb", "ab", "", "日", "\\", "\\q", "\\x", "\\xZZ", "\\0999", "\u00a0"]


def binary_worker(job):
    k, nruns, seed, base = job
    st = Stats()
    rng = common.rng_for(seed, "C05b", k)
    wd = os.path.join(base, "b%d" % k)
    os.makedirs(wd)
    if k == 0:
        # -d takes one BYTE (literal or escaped): anything else - in particular one multi-byte character - is refused, never
        # quietly reduced to one of its bytes
        for bad in BAD_DELIMS:
            for form in (["-d", bad], ["--delimiter=" + bad]):
                r = xref.run_xargs(wd, form, [], "aébàc€d\n".encode())
                st.inc("evaluations")
                st.inc("invalid_delimiter_operands")
                if r.rc != 1 or r.invocations or not r.err.strip():
                    st.violate("delimited-tokens-differ", None, {"options": form, "problem": "not refused: exit %r, %d invocations" % (r.rc, len(r.invocations)),
                                                                 "observed_args": [a for _, argv in r.invocations for a in argv][:6], "stderr": r.err[-160:]},
                               {"options": form})
    for i in range(nruns):
        mode = rng.choice([-1, -1, 0, ord(","), "spelled"])
        if mode == "spelled":
            # -d C with C spelled as a literal character, a C-style escape, a hex or an octal escape (all documented spellings);
            # the data contains every candidate delimiter byte so that a wrong mapping shows
            mode, spelling = rng.choice(DELIM_SPELLINGS)
            pieces = [b"a", b"bc", b"'q'", b"\\", b" ", bytes([mode])] + [bytes([c]) for c in (7, 8, 9, 10, 11, 12, 13, 44, 92)]
            data = b"".join(rng.choice(pieces) for _ in range(rng.randint(1, 14))).replace(b"\0", b"")
            if mode == 0:
                data = data + b"\0x\0"
            opts = ["-d", spelling] if rng.random() < 0.7 else ["--delimiter=" + spelling]
            st.add("delimiter_spellings", spelling)
            st.inc("spelled_delimiter_runs")
        else:
            if rng.random() < 0.5:
                data = long_input(rng, rng.choice([300, 4100, 8200]), None if mode < 0 else mode)
            else:
                alpha = ALPHA_DEFAULT if mode < 0 else (ALPHA_NUL if mode == 0 else ALPHA_COMMA)
                data = b"".join(rng.choice(alpha) for _ in range(rng.randint(0, 12)))
            opts = [] if mode < 0 else (["-0"] if mode == 0 else ["-d", ","])
        if mode != 0 and b"\0" in data:
            continue
        ref = xref.tokenize(data) if mode < 0 else None
        results = []
        for name, ch in list(chunkings(rng, data))[:1] + [rng.choice(list(chunkings(rng, data))[1:])]:
            ch = [c for c in ch if c]
            r = xref.run_xargs(wd, opts + ["-n", "100000"], [], data, chunks=ch if name != "whole" else None)
            st.inc("binary_runs")
            flat = [a for _, argv in r.invocations for a in argv]
            results.append((name, r.rc, flat))
            if r.rc in (101, 134, -6, -11) or r.timed_out:
                st.violate("panic-or-hang", None, {"input": data, "rc": r.rc, "stderr": r.err[-200:]}, {"input": hx(data), "mode": mode})
                continue
            # a field of 128 KiB or more cannot be passed: the arguments before it are run, then xargs reports it (status 1); it is
            # never cut into pieces that fit
            exp_all = ([t for t, _ in ref.tokens] if (mode < 0 and not ref.error) else [t for t, _ in xref.split_delim(data, mode)] if mode >= 0 else [])
            big_at = next((j for j, t_ in enumerate(exp_all) if len(t_) + 1 > 131072), None)
            if big_at is not None and (mode >= 0 or ref.in_domain):
                st.inc("evaluations")
                st.inc("binary_runs_with_a_field_too_long_to_pass")
                if flat != exp_all[:big_at] or r.rc != 1 or not r.err.strip():
                    st.violate("delimited-tokens-differ" if mode >= 0 else "tokens-differ", None,
                               {"input": data[:200], "delim": mode, "problem": "a field of %d bytes cannot be passed: expected the %d arguments before it, "
                                "exit status 1 and a diagnostic" % (len(exp_all[big_at]), big_at), "observed_lengths": [len(a) for a in flat][:12],
                                "rc": r.rc, "stderr": r.err[-160:], "source": "binary/" + name}, {"input": hx(data), "mode": mode})
                continue
            if mode < 0:
                if ref.error:
                    if r.rc != 1 or not r.err:
                        st.violate("unterminated-quote-not-reported", None, {"input": data, "rc": r.rc, "source": "binary"}, {"input": hx(data)})
                elif ref.in_domain:
                    st.inc("evaluations")
                    if flat != [t for t, _ in ref.tokens] or r.rc != 0:
                        st.violate("tokens-differ", None, {"input": data[:300], "expected": [t for t, _ in ref.tokens][:20], "observed": flat[:20],
                                                           "rc": r.rc, "source": "binary/" + name}, {"input": hx(data), "mode": mode})
            else:
                st.inc("evaluations")
                exp = [t for t, _ in xref.split_delim(data, mode)]
                if flat != exp or r.rc != 0:
                    st.violate("delimited-tokens-differ", None, {"input": data[:300], "delim": mode, "expected": exp[:20], "observed": flat[:20],
                                                                 "rc": r.rc, "source": "binary/" + name}, {"input": hx(data), "mode": mode})
        if len(results) == 2 and results[0][1:] != results[1][1:]:
            st.violate("chunking-changes-result", None, {"input": data[:200], "source": "binary", "a": results[0][:2], "b": results[1][:2]},
                       {"input": hx(data), "mode": mode})
    return st


SELF = [
    (b"a b\nc", [(b"a", False), (b"b", True), (b"c", False)]),
    (b"  a  \n", [(b"a", False)]),
    (b"'a b' \"c'd\"\n", [(b"a b", False), (b"c'd", True)]),
    (b"a\\ b\\\\ \\'c", [(b"a b\\", False), (b"'c", False)]),
    (b"x'y'z\"w\"\n\n\nq\n", [(b"xyzw", True), (b"q", True)]),
    (b"", []), (b" \n\t", []),
]


def run(ctx):
    ctx.rule = ("(i) every input over {a, é, space, newline, tab, ', \", backslash} up to the length bound, each under every "
                "cut set (short inputs) or every single cut / 1-byte reads / adjacent double cuts (longer), with injected "
                "Interrupted reads; the same for -0 and -d , over their alphabets; (ii) random long inputs straddling the "
                "4096/8192 buffer edges under 20 chunkings; (iii) a sample through the real binary with a chunked writer. "
                "distinct = inputs with at least one token")
    ctx.assumptions = ["reference tokenizer lib/xref.py (self-checked)", "not judged: stand-alone empty quoted tokens, newline inside quotes, "
                       "trailing backslash, CR/FF/VT/NUL in default mode, empty fields in -0/-d mode"]
    for data, want in SELF:
        r = xref.tokenize(data)
        if r.tokens != want or r.error:
            raise common.Inconclusive("tokenizer self-check failed on %r: %r" % (data, r.tokens))
    if xref.tokenize(b"a 'b").error is None:
        raise common.Inconclusive("tokenizer self-check: unterminated quote")
    base = ctx.scratch()
    if ctx.replay:
        import json
        rp = json.load(open(ctx.replay))["replay"]
        lines = ["r\t%d\t%s" % (rp.get("mode", -1), ",".join(rp.get("chunks") or [rp["input"]]))]
        raw = common.run_vh("split", lines, base)
        print("replay result:", raw)
        data = unhx(rp["input"])
        judge_default(ctx.stats, data, raw["r"][0], raw["r"][1] if len(raw["r"]) > 1 else "", "replay", rp)
        return
    nw = common.NCPU
    L = ctx.scale(6, 8)
    jobs = [(k, nw, ALPHA_DEFAULT, L, -1, ctx.scale(6, 8), base) for k in range(nw)]
    jobs += [(k, nw, ALPHA_NUL, ctx.scale(5, 7), 0, 7, base) for k in range(nw)]
    jobs += [(k, nw, ALPHA_CRFF, ctx.scale(6, 8), -1, 6, base) for k in range(nw)]
    jobs += [(k, nw, ALPHA_RAW, ctx.scale(5, 7), -1, 6, base) for k in range(nw)]
    jobs += [(k, nw, ALPHA_RAW_NUL, ctx.scale(5, 7), 0, 6, base) for k in range(nw)]
    jobs += [(k, nw, ALPHA_COMMA, ctx.scale(5, 6), ord(","), 7, base) for k in range(nw)]
    ctx.pmap(exhaustive_worker, jobs)
    ctx.exhaustive = True
    ctx.extra_cov["exhaustive_bound"] = "default mode: all inputs of <= %d symbols over 8 symbols; -0: <= %d; -d ,: <= %d" % (L, ctx.scale(5, 7), ctx.scale(5, 6))
    ctx.pmap(random_worker, [(k, ctx.scale(4, 60), ctx.seed, base) for k in range(nw)])
    ctx.pmap(binary_worker, [(k, ctx.scale(24, 240), ctx.seed, base) for k in range(nw)])
    for key in ("cuts_inside_quote", "cuts_after_backslash", "cuts_inside_multibyte_char", "cuts_at_4096_buffer_edge",
                "chunkings_with_interrupted_reads", "inputs_with_unterminated_quote", "binary_runs", "delim_mode_inputs"):
        ctx.require(key, 5)
