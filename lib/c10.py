"""C10 — find -delete removes exactly the matched entries and nothing else.

Monitors: strace log of every mutating syscall made by the real find binary; before/after snapshots of the whole sandbox
(starting points, siblings and the 'outside' directory links point to); stdout/stderr/exit status. Oracle = the property's
own relation: `find ROOTS -depth EXPR -print0` on the identical tree gives the order; a twin copy of the sandbox is mutated
by replaying rmdir/unlink in that order; real and twin must end up identical, with identical removal event sequences."""
import os
import re
import shutil
import subprocess

import common
import refeval
import refwalk
import treegen
from common import Stats

MUTATING = ("unlink,unlinkat,rmdir,rename,renameat,renameat2,truncate,ftruncate,chmod,fchmod,fchmodat,chown,fchown,lchown,"
            "fchownat,mkdir,mkdirat,link,linkat,symlink,symlinkat,utimensat,open,openat,creat,mknod,mknodat,setxattr,removexattr")
LINE_RE = re.compile(rb'^\d+\s+(\w+)\((.*)\)\s+=\s+(-?\d+)(?:\s+(\w+))?')


def c_unescape(b):
    out = bytearray()
    i = 0
    while i < len(b):
        c = b[i:i + 1]
        if c == b"\\":
            n = b[i + 1:i + 2]
            if n in b"01234567":
                j = i + 1
                while j < len(b) and j < i + 4 and b[j:j + 1] in b"01234567":
                    j += 1
                out.append(int(b[i + 1:j], 8))
                i = j
                continue
            out += {b"n": b"\n", b"t": b"\t", b"r": b"\r", b'"': b'"', b"\\": b"\\", b"v": b"\v", b"f": b"\f", b"e": b"\x1b"}.get(n, n)
            i += 2
        else:
            out += c
            i += 1
    return bytes(out)


def first_string(args):
    m = re.search(rb'"((?:[^"\\]|\\.)*)"', args)
    return c_unescape(m.group(1)).decode("utf-8", "surrogateescape") if m else None


def parse_strace(path, find_pid_only=True):
    """-> (attempts, others): attempts = [(op, path, ok)] for removals; others = other mutating calls that succeeded."""
    attempts, others = [], []
    with open(path, "rb") as f:
        for line in f:
            m = LINE_RE.match(line)
            if not m:
                continue
            call, args, ret = m.group(1).decode(), m.group(2), int(m.group(3))
            if call in ("unlink", "rmdir"):
                attempts.append((call, first_string(args), ret == 0))
            elif call == "unlinkat":
                op = "rmdir" if b"AT_REMOVEDIR" in args else "unlink"
                attempts.append((op, first_string(args), ret == 0))
            elif call in ("open", "openat", "creat"):
                if ret >= 0 and (call == "creat" or re.search(rb"O_WRONLY|O_RDWR|O_CREAT|O_TRUNC|O_APPEND", args)):
                    p = first_string(args)
                    if p and not p.startswith(("/dev/", "/proc/")):
                        others.append((call, p))
            elif ret == 0 or (call in ("mkdir", "mkdirat") and ret == 0):
                others.append((call, first_string(args)))
    return attempts, others


NAMES = ["a", "b", "c", "d", "e", "x.txt", "y.txt", "k", "aa", "ab", "ba", "z.c", "m", "n", "a.", "b.", "k.", "..a", ".b", "c..", "x.txt."]
TESTS_ANY = [["-name", "a*"], ["-name", "*.txt"], ["-name", "[a-c]"], ["-path", "*/a/*"], ["-path", "*b*"], ["-name", "*"],
             ["-regex", ".*/[ab].*"], ["-name", "k"], ["!", "-name", "b*"], ["-iname", "A*"]]
TESTS_STATIC = [["-type", "f"], ["-type", "d"], ["-type", "l"], ["-size", "+0"], ["-size", "0"], ["-perm", "600"], ["-perm", "-040"],
                ["!", "-type", "d"]]


def gen_expr(rng, mode):
    pool = TESTS_ANY + (TESTS_STATIC if mode == "P" else [])
    k = rng.random()
    t1, t2 = rng.choice(pool), rng.choice(pool)
    if k < 0.35:
        e = t1
    elif k < 0.6:
        e = ["("] + t1 + ["-o"] + t2 + [")"]
    elif k < 0.8:
        e = t1 + t2
    elif k < 0.9:
        e = ["!", "("] + t1 + ["-o"] + t2 + [")"]
    else:
        e = []
    pre = []
    if rng.random() < 0.25:
        pre += ["-mindepth", str(rng.randint(0, 2))]
    if rng.random() < 0.2:
        pre += ["-maxdepth", str(rng.randint(1, 3))]
    if rng.random() < 0.2:
        # -prune in front of -delete: -delete implies -depth, under which -prune changes nothing (it is just true)
        tp = rng.choice([["-name", "a"], ["-name", "b"], ["-name", "[c-e]"], ["-type", "d", "-name", "?"], ["-path", "*/a"], ["-name", "k"]])
        e = tp + ["-prune", "-o"] + (e if e else ["-true"])
    return pre + e


def gen_sandbox(rng, mode):
    link_kinds = ("file", "dir", "dangling", "outside", "ancestor") if mode == "P" else ("dangling",)
    nodes = treegen.random_tree(rng, "r", max_nodes=rng.choice([6, 14, 28]), max_depth=4, names=NAMES, p_link=0.2,
                                link_kinds=link_kinds, sizes=(0, 0, 1, 5, 700), special=rng.random() < 0.35)
    for n in nodes:
        if n.kind == "f" and rng.random() < 0.2:
            n.mode = 0o600
    have_out = any(n.path == "out" for n in nodes)
    if not have_out:
        nodes = [treegen.Node("out", "d"), treegen.Node("out/of", "f", size=3), treegen.Node("out/od", "d"),
                 treegen.Node("out/od/og", "f", size=1), treegen.Node("out/od/sub", "d"), treegen.Node("out/od/sub/h", "f")] + nodes
    if rng.random() < 0.2:
        # names that are not valid UTF-8 (surrogate escapes), with look-alike siblings spelled with U+FFFD
        dirs_ = [n.path for n in nodes if n.kind == "d" and n.path.startswith("r")]
        for nm in rng.sample(["a\udce9", "b\udcff.txt", "\udce8k", "x\udc80", "a\ufffd", "b\ufffd.txt"], rng.randint(2, 4)):
            pth = rng.choice(dirs_) + "/" + nm
            if all(n.path != pth for n in nodes):
                kind = rng.choice(["f", "f", "d"])
                nodes.append(treegen.Node(pth, kind, size=rng.choice([0, 3])))
                if kind == "d":
                    dirs_.append(pth)
    if rng.random() < 0.25:
        dirs_ = [n.path for n in nodes if n.kind == "d" and n.path.startswith("r")]
        for nm, kind in rng.sample([("cdev", "c"), ("bdev", "b"), ("pipe", "p"), ("sock", "s")], rng.randint(1, 3)):
            pth = rng.choice(dirs_) + "/" + nm
            if all(n.path != pth for n in nodes):
                nodes.append(treegen.Node(pth, kind))
    nodes.append(treegen.Node("sibling", "d"))
    nodes.append(treegen.Node("sibling/keep", "f", size=4))
    nodes.append(treegen.Node("lroot", "l", target="r"))
    if mode == "L":
        # links to *distinct* outside targets only (no two followed paths to the same entry)
        dirs = [n.path for n in nodes if n.kind == "d" and n.path.startswith("r")]
        targets = ["out/of", "out/od"]
        rng.shuffle(targets)
        for tgt in targets[:rng.randint(0, 2)]:
            parent = rng.choice(dirs)
            nm = rng.choice(["lk", "a", "zz"]) + tgt[-2:]
            p = parent + "/" + nm
            if not any(x.path == p for x in nodes):
                nodes.append(treegen.Node(p, "l", target=os.path.relpath(tgt, parent)))
    return nodes


def replay_on_twin(twin, printed, stop_at_failure=False):
    """Apply the model: in the printed order, rmdir real directories, unlink everything else. -> attempts list."""
    attempts = []
    for p in printed:
        if stop_at_failure and attempts and not attempts[-1][2]:
            break
        ap = os.path.join(twin, p)
        try:
            if os.path.isdir(ap) and not os.path.islink(ap):
                op = "rmdir"
                os.rmdir(ap)
            else:
                op = "unlink"
                os.unlink(ap)
            attempts.append((op, p, True))
        except OSError:
            attempts.append((op, p, False))
    return attempts


def worker(job):
    k, nruns, seed = job
    st = Stats()
    rng = common.rng_for(seed, "C10", k)
    base = common.mkscratch("C10w%d" % k)
    try:
        for t in range(nruns):
            sb = os.path.join(base, "s%d" % t)
            twin = os.path.join(base, "twin%d" % t)
            os.makedirs(sb)
            mode = rng.choice(["P", "P", "H", "L"])
            nodes = gen_sandbox(rng, mode)
            treegen.build(sb, nodes)
            expr = gen_expr(rng, mode)
            roots = ["r"]
            r = rng.random()
            # (starting points must be valid UTF-8: find refuses other arguments)
            subdirs = [n.path for n in nodes if n.kind == "d" and n.path.startswith("r/") and not any(0xDC80 <= ord(ch) <= 0xDCFF for ch in n.path)]
            if mode == "H" and r < 0.6:
                roots = ["lroot"]
            elif r < 0.2 and subdirs:
                roots = [rng.choice(subdirs), "sibling/nonexistent"] if rng.random() < 0.3 else [rng.choice(subdirs)]
            elif r < 0.3 and subdirs:
                a = rng.choice(subdirs)
                b = rng.choice([d for d in subdirs if not (d + "/").startswith(a + "/") and not (a + "/").startswith(d + "/")] or [a])
                roots = [a, b] if a != b else [a]
            flag = [] if mode == "P" and rng.random() < 0.5 else ["-" + mode]
            env = common.clean_env()
            prn = [common.FIND] + flag + roots + ["-sorted", "-depth"] + expr + ["-print0"]
            rc0, out0, err0, to0 = common.run_cmd(prn, cwd=sb, env=env, timeout=60)
            printed = [p.decode("utf-8", "surrogateescape") for p in out0.split(b"\0")[:-1]]
            # cross-check the printed set with the reference evaluator
            try:
                ast = refeval.Parser(["-sorted", "-depth"] + expr + ["-print0"]).parse()
                opts = refeval.global_options(ast)
                renv = refeval.Env(sb)
                w = refwalk.Walk(mode, opts["mindepth"], opts["maxdepth"], True, True, sb)
                for root in roots:
                    w.run(root, lambda e: refeval.evaluate(ast, e, renv) and False)
                ref_list = [c[1][:-1].decode("utf-8", "surrogateescape") for c in renv.sinks.get("stdout", [])]
                ref_set = sorted(ref_list)
                raw = any(0xDC80 <= ord(ch) <= 0xDCFF for n_ in nodes for ch in n_.path)
                if raw:
                    # -print0 shows such names lossily: compare after the same conversion, then go on with the exact names
                    st.inc("sandboxes_with_non_utf8_names")
                    lossy = [os.fsencode(x).decode("utf-8", "replace") for x in ref_list]
                    if sorted(os.fsencode(x).decode("utf-8", "replace") for x in printed) != sorted(lossy) and not w.out_of_domain:
                        st.violate("matched-set-differs-from-reference", None, {"args": prn[1:], "printed": printed[:20], "reference(lossy)": lossy[:20]},
                                   {"tree": [n.to_json() for n in nodes], "args": prn[1:]})
                    # exact names, in find's own -depth order: observed through the argv of `-exec rec {} +`
                    xlog = os.path.join(base, "x-%d.log" % t)
                    rcx, outx, errx, tox = common.run_cmd([common.FIND] + flag + roots + ["-sorted", "-depth"] + expr + ["-exec", common.REC, "{}", "+"],
                                                          cwd=sb, env=common.clean_env({"VERIF_REC_LOG": xlog}), timeout=60)
                    import xref
                    exact = [a.decode("utf-8", "surrogateescape") for _, argv in xref.read_reclog(xlog) for a in argv]
                    for f_ in (xlog, xlog + ".n"):
                        if os.path.exists(f_):
                            os.unlink(f_)
                    if sorted(exact) != ref_set and not w.out_of_domain:
                        st.violate("matched-set-differs-from-reference", None, {"args": prn[1:], "exec_plus_argv": exact[:20], "reference": ref_set[:20]},
                                   {"tree": [n.to_json() for n in nodes], "args": prn[1:]})
                    printed = exact
                elif sorted(printed) != ref_set and not w.out_of_domain:
                    st.violate("matched-set-differs-from-reference", None,
                               {"args": prn[1:], "printed": sorted(printed)[:20], "reference": ref_set[:20]},
                               {"tree": [n.to_json() for n in nodes], "args": prn[1:]})
            except (refeval.ParseError, ValueError) as e:
                raise common.Inconclusive("reference evaluator cannot parse %r: %s" % (expr, e))
            if any(n_.kind in "pscb" for n_ in nodes):
                st.inc("sandboxes_with_fifo_socket_or_device")
                treegen.build(twin, nodes)           # (copytree cannot copy special files)
            else:
                shutil.copytree(sb, twin, symlinks=True)
            before_out = treegen.snapshot(os.path.join(sb, "out"))
            # one run in five: "stop at the first entry that cannot be removed" - ( -delete -o -quit ); a failed removal is
            # reported in the exit status also when -quit is evaluated on that very entry
            quit_after_failure = rng.random() < 0.2
            exp_attempts = replay_on_twin(twin, printed, stop_at_failure=quit_after_failure)
            slog = os.path.join(base, "strace-%d.log" % t)
            tail = ["(", "-delete", "-printf", "D:%p\\0", "-o", "-quit", ")"] if quit_after_failure else ["-delete", "-printf", "D:%p\\0"]
            if quit_after_failure:
                st.inc("runs_with_quit_after_the_first_failed_removal")
            dflag = flag
            if rng.random() < 0.3:
                # several of -P/-H/-L: the last one decides (round 9: a -P that no longer overrides an earlier -L lets -delete
                # walk through a link into a directory outside the starting points)
                dflag = [rng.choice(["-L", "-H", "-P"]) for _ in range(rng.randint(1, 2))] + ["-" + mode]
                st.inc("runs_with_overridden_follow_options")
            elif mode == "L" and rng.random() < 0.5:
                # the same follow mode spelled -follow, written before or AFTER -delete: a global option wherever it stands
                dflag = []
                if rng.random() < 0.6:
                    tail = tail + ["-follow"]
                    st.inc("runs_with_follow_written_after_delete")
                else:
                    tail = ["-follow"] + tail
            dele = ["strace", "-f", "-qq", "-s", "4096", "-o", slog, "-e", "trace=" + MUTATING,
                    common.FIND] + dflag + roots + ["-sorted"] + expr + tail
            rc, out, err, to = common.run_cmd(dele, cwd=sb, env=env, timeout=120)
            st.inc("evaluations")
            st.inc("runs_mode_" + mode)
            st.add("distinct", (tuple(roots), tuple(expr), mode, tuple(n.path for n in nodes)))
            rp = {"tree": [n.to_json() for n in nodes], "args": dele[9:], "print_args": prn[1:]}
            if to or rc in (101, 134, -6, -11):
                st.violate("panic-or-hang", None, {"args": dele[9:], "rc": rc, "stderr": err[-300:]}, rp)
                continue
            attempts, others = parse_strace(slog)
            os.unlink(slog)
            problems = []
            ok_exp = [(o, p) for o, p, ok in exp_attempts if ok]
            ok_got = [(o, p) for o, p, ok in attempts if ok]
            fail_exp = [p for o, p, ok in exp_attempts if not ok]
            st.inc("removal_events_observed", len(ok_got))
            st.inc("failed_removals_expected", len(fail_exp))
            st.inc("link_entries_removed", sum(1 for o, p in ok_got if os.path.islink(os.path.join(twin, p)) or any(n.path == p and n.kind == "l" for n in nodes)))
            if ok_got != ok_exp:
                extra = [x for x in ok_got if x not in ok_exp][:4]
                missing = [x for x in ok_exp if x not in ok_got][:4]
                if sorted(ok_got) == sorted(ok_exp):
                    problems.append("removals happen in another order than -depth -print reports")
                else:
                    problems.append("successful removals differ: unexpected %r, missing %r" % (extra, missing))
            if others:
                problems.append("other mutating system calls: %r" % others[:4])
            snap_real = treegen.snapshot(sb)
            snap_twin = treegen.snapshot(twin)
            if snap_real != snap_twin:
                diff = sorted(set(snap_real.items()) ^ set(snap_twin.items()))[:6]
                problems.append("final state differs from the model: %r" % (diff,))
            st.inc("outside_bytes_verified_untouched", sum(v[2] for v in before_out.values() if len(v) > 2))
            want_fail = bool(fail_exp) or rc0 != 0
            if fail_exp:
                st.inc("runs_with_failed_removal")
                if rc == 0:
                    problems.append("exit status 0 although %d removals must fail (e.g. %r)" % (len(fail_exp), fail_exp[0]))
                if not err.strip():
                    problems.append("no diagnostic for failed removals")
            if not want_fail and rc != 0:
                problems.append("exit status %r without any failed removal: %r" % (rc, err[-200:]))
            # -delete is true exactly for the successful removals (observed through the following -printf)
            dtrue = [p.decode("utf-8", "surrogateescape")[2:] for p in out.split(b"\0")[:-1]]
            exp_true = [p for o, p in ok_exp]
            if any(0xDC80 <= ord(ch) <= 0xDCFF for p_ in exp_true for ch in p_):
                exp_true = [os.fsencode(p_).decode("utf-8", "replace") for p_ in exp_true]      # -printf is lossy for such names
            if dtrue != exp_true:
                problems.append("-delete true for %r, expected exactly the successful removals %r" % (dtrue[:6], [p for o, p in ok_exp][:6]))
            # walk continues after a failure: every printed entry must have been attempted
            got_paths = [p for o, p, ok in attempts]
            if [p for o, p, ok in exp_attempts] != got_paths and not problems:
                problems.append("attempt sequence differs: %r vs model %r" % (got_paths[:8], [p for o, p, ok in exp_attempts][:8]))
            if problems:
                st.violate("delete", None, {"args": dele[9:], "problems": problems[:5], "exit": rc, "stderr": err[-300:]}, rp)
            if t % 11 == 0:
                st.sample({"args": dele[9:], "removed": ok_got[:5], "failed": fail_exp[:3]})
            common.force_rmtree(sb)
            common.force_rmtree(twin)
    finally:
        common.force_rmtree(base)
    return st


def dot_worker(job):
    """'.' among several starting points: find leaves its own working directory alone (silently; -delete is true for it) and removes
    everything else that matched - under '.' and under the other starting points, whatever their order on the command line."""
    k, nruns, seed = job
    st = Stats()
    rng = common.rng_for(seed, "C10dot", k)
    base = common.mkscratch("C10d%d" % k)
    try:
        for t in range(nruns):
            sb = os.path.join(base, "d%d" % t)
            nodes = [treegen.Node("here", "d"), treegen.Node("other", "d"), treegen.Node("third", "d"), treegen.Node("keep", "d"), treegen.Node("keep/k", "f", size=2)]
            for top in ("here", "other", "third"):
                for nm in rng.sample(NAMES, rng.randint(1, 5)):
                    kind = rng.choice(["f", "f", "d"])
                    nodes.append(treegen.Node(top + "/" + nm, kind))
                    if kind == "d" and rng.random() < 0.6:
                        nodes.append(treegen.Node(top + "/" + nm + "/in", "f"))
            if rng.random() < 0.6:
                # symbolic links that point at find's own working directory (relative, absolute, through '.'): they are entries like
                # any other and are removed when matched - only the working directory itself cannot be
                for top, tgt in rng.sample([("other", "../here"), ("third", os.path.join(sb, "here")), ("here", "."), ("other", "../here/."),
                                            ("here", "../here")], rng.randint(1, 3)):
                    if all(n.path != top + "/tohere" for n in nodes):
                        nodes.append(treegen.Node(top + "/tohere", "l", target=tgt))
                st.inc("runs_with_links_to_the_working_directory")
            os.makedirs(sb)
            treegen.build(sb, nodes)
            roots = rng.choice([[".", "../other"], ["../other", "."], [".", "../other", "../third"], ["../third", ".", "../other"], ["."],
                                ["../other", "../third"], ["./", "../other"], [".", "."]])
            cwd = os.path.join(sb, "here")
            ents, w = refwalk.walk_list(roots, "P", 0, None, True, True, cwd)
            seq = [e.path for e in ents]
            args = [common.FIND] + roots + ["-sorted", "-delete", "-printf", "D:%p\\0"]
            rc, out, err, to = common.run_cmd(args, cwd=cwd, env=common.clean_env(), timeout=60)
            st.inc("evaluations")
            st.inc("runs_with_dot_among_the_starting_points")
            st.add("distinct", (tuple(roots), tuple(n.path for n in nodes)))
            rp = {"tree": [n.to_json() for n in nodes], "args": ["find"] + roots + ["-sorted", "-delete", "-printf", "D:%p\\0"], "cwd": "here"}
            if to or rc in (101, 134, -6, -11):
                st.violate("panic-or-hang", None, {"args": rp["args"], "rc": rc, "stderr": err[-300:]}, rp)
                common.force_rmtree(sb)
                continue
            problems = []
            dtrue = [x.decode("utf-8", "surrogateescape")[2:] for x in out.split(b"\0")[:-1]]
            # a starting point given twice: its entries are gone when the second walk starts; the second '.' is again left alone
            seen, want_true = set(), []
            for p_ in seq:
                key = os.path.normpath(os.path.join(cwd, p_))
                if key in seen and key != os.path.normpath(cwd):
                    continue
                seen.add(key)
                want_true.append(p_)
            # the working directory itself ('.', './') cannot be removed: leaving it alone silently (-delete true) and diagnosing it
            # (-delete false, non-zero exit) are both accepted - the statement does not single it out; every OTHER matched entry,
            # the other starting points included, must really be removed
            here = [r_ for r_ in roots if os.path.normpath(os.path.join(cwd, r_)) == os.path.normpath(cwd)]
            diagnosed = [h for h in set(here) if h not in dtrue]
            if [p_ for p_ in dtrue if p_ not in here] != [p_ for p_ in want_true if p_ not in here]:
                problems.append("-delete true for %r, expected %r" % (dtrue[:8], want_true[:8]))
            left = sorted(treegen.snapshot(sb).keys())
            want_left = ["here", "keep", "keep/k"] + [top for top in ("other", "third") if "../" + top not in roots]
            want_left += [n.path for n in nodes if n.path.split("/")[0] in want_left[3:] and "/" in n.path]
            if "." not in roots and "./" not in roots:
                want_left += [n.path for n in nodes if n.path.startswith("here/")]
            if sorted(set(left) - {""}) != sorted(set(want_left)):
                problems.append("left behind %r, expected %r" % (sorted(set(left) - {""})[:10], sorted(set(want_left))[:10]))
            if diagnosed:
                st.inc("runs_in_which_the_working_directory_was_diagnosed")
                if rc == 0 or not err.strip():
                    problems.append("-delete false for %r but exit status %r, stderr %r" % (diagnosed, rc, err[-200:]))
            elif rc != 0 or err.strip():
                problems.append("exit status %r, stderr %r although nothing failed" % (rc, err[-200:]))
            if problems:
                st.violate("delete", None, {"args": rp["args"], "cwd": "here", "problems": problems, "exit": rc, "stderr": err[-200:]}, rp)
            common.force_rmtree(sb)
    finally:
        common.force_rmtree(base)
    return st


def many_failures_worker(job):
    """Hundreds of removals that fail in one run (directories kept non-empty by an entry that did not match): the exit status is
    non-zero however many there are - 255, 256, 257, 512 - and every other matched entry is still removed."""
    k, counts, seed = job
    st = Stats()
    base = common.mkscratch("C10m%d" % k)
    try:
        for n in counts:
            sb = os.path.join(base, "m%d" % n)
            os.makedirs(os.path.join(sb, "r"))
            for i in range(n):
                os.mkdir(os.path.join(sb, "r", "d%04d" % i))
                open(os.path.join(sb, "r", "d%04d" % i, "keep.txt"), "w").close()
                open(os.path.join(sb, "r", "d%04d" % i, "gone.tmp"), "w").close()
            args = [common.FIND, "r", "-mindepth", "1", "(", "-type", "d", "-o", "-name", "*.tmp", ")", "-delete"]
            rc, out, err, to = common.run_cmd(args, cwd=sb, env=common.clean_env(), timeout=300)
            st.inc("evaluations")
            st.inc("runs_with_hundreds_of_failed_removals")
            st.add("distinct", ("many-failures", n))
            left = sorted(treegen.snapshot(os.path.join(sb, "r")).keys())
            want = sorted([""] + ["d%04d" % i for i in range(n)] + ["d%04d/keep.txt" % i for i in range(n)])
            problems = []
            if rc == 0 or to:
                problems.append("exit status %r although %d removals failed" % (rc, n))
            if err.count(b"\n") < n:
                problems.append("%d diagnostic lines for %d failed removals" % (err.count(b"\n"), n))
            if sorted(x for x in left) != sorted(set(want) | set(left)) or any(x.endswith("gone.tmp") for x in left):
                problems.append("entries left behind: %r" % [x for x in left if x.endswith("gone.tmp")][:5])
            if problems:
                st.violate("delete", None, {"args": ["find"] + args[1:], "failed_removals": n, "problems": problems, "exit": rc}, {"args": ["find"] + args[1:], "n": n})
            common.force_rmtree(sb)
    finally:
        common.force_rmtree(base)
    return st


def vanished_worker(job):
    """A matched entry that is gone by the time -delete is evaluated (removed by an earlier action of the same expression):
    the removal fails, so -delete must be false, diagnosed, and make find exit non-zero. Shapes: `E -delete -delete` and
    `E -exec rm -f {} ; -delete` on files; the final state must equal the state after removing each matched file once."""
    k, nruns, seed = job
    st = Stats()
    rng = common.rng_for(seed, "C10v", k)
    base = common.mkscratch("C10v%d" % k)
    try:
        for t in range(nruns):
            sb = os.path.join(base, "s%d" % t)
            os.makedirs(sb)
            nodes = treegen.random_tree(rng, "r", max_nodes=rng.choice([6, 14]), max_depth=3, names=NAMES, p_link=0.1, link_kinds=("file", "dangling"),
                                        sizes=(0, 1, 5))
            treegen.build(sb, nodes)
            test = rng.choice([["-type", "f"], ["-type", "f", "-name", "*a*"], ["!", "-type", "d"], ["!", "-type", "d", "-name", "*.txt*"], ["-type", "l"],
                               ["!", "-type", "d", "-name", "*."]])      # (only non-directories: the first step must be able to remove them)
            shape = rng.choice(["double-delete", "rm-then-delete"])
            mid = ["-delete"] if shape == "double-delete" else ["-exec", "rm", "-f", "{}", ";"]
            args = [common.FIND, "r", "-sorted"] + test + mid + ["-delete", "-printf", "T:%p\\0", "-o"] + test + ["-printf", "F:%p\\0"]
            # which entries match (no side effects)
            rc0, out0, err0, to0 = common.run_cmd([common.FIND, "r", "-sorted", "-depth"] + test + ["-print0"], cwd=sb, env=common.clean_env(), timeout=60)
            matched = [x.decode("utf-8", "surrogateescape") for x in out0.split(b"\0")[:-1]]
            rc, out, err, to = common.run_cmd(args, cwd=sb, env=common.clean_env(), timeout=60)
            st.inc("evaluations")
            st.inc("vanished_entry_runs")
            st.inc("vanished:" + shape)
            st.add("distinct", (shape, tuple(test), tuple(n.path for n in nodes)))
            rp = {"tree": [n.to_json() for n in nodes], "args": args[1:]}
            if to or rc in (101, 134, -6, -11):
                st.violate("panic-or-hang", None, {"args": args[1:], "rc": rc, "stderr": err[-300:]}, rp)
                common.force_rmtree(sb)
                continue
            labels = [x.decode("utf-8", "surrogateescape") for x in out.split(b"\0")[:-1]]
            problems = []
            left = [m for m in matched if os.path.lexists(os.path.join(sb, m))]
            if left:
                problems.append("matched entries still present: %r" % left[:4])
            true_for = [x[2:] for x in labels if x.startswith("T:")]
            if true_for:
                problems.append("-delete evaluated to true for entries that were already gone: %r" % true_for[:4])
            if matched:
                st.inc("vanished_entries_evaluated", len(matched))
                if sorted(x[2:] for x in labels if x.startswith("F:")) != sorted(matched):
                    problems.append("the failed -delete must be false for every matched entry: false for %r, matched %r" % (sorted(x[2:] for x in labels if x.startswith("F:"))[:5], sorted(matched)[:5]))
                if rc == 0:
                    problems.append("exit status 0 although %d removals failed (entry already gone)" % len(matched))
                if not err.strip():
                    problems.append("no diagnostic for the failed removals")
            elif rc != 0:
                problems.append("exit status %r although nothing matched" % rc)
            if problems:
                st.violate("delete", None, {"args": args[1:], "problems": problems[:4], "exit": rc, "stderr": err[-300:]}, rp)
            common.force_rmtree(sb)
    finally:
        common.force_rmtree(base)
    return st


def run(ctx):
    ctx.rule = ("sandboxes with files, nested directories, links to files and directories inside and outside the starting points, "
                "dangling links, a sibling directory and an 'outside' directory; state-independent test expressions (name/path/regex, "
                "and type/size/perm under -P) combined with !, -o, juxtaposition, depth bounds; follow modes -P/-H/-L; 1-2 starting "
                "points incl. a symlinked one and a missing one; many matched directories stay non-empty (forced failures); "
                "distinct = (roots, expression, mode, tree)")
    ctx.assumptions = ["under -L only links to distinct outside targets (two followed paths to one entry make '-depth -print on an identical tree' state dependent)",
                       "starting point '.' not used", "strace as recorder of mutating system calls; ASCII names plus, in a fifth of the sandboxes, names that are not valid UTF-8 next to look-alikes spelled with U+FFFD"]
    if c_unescape(rb'a\"b\\c\303\251\n') != 'a"b\\cé\n'.encode():
        raise common.Inconclusive("strace unescape self-check failed")
    try:
        subprocess.run(["strace", "-o", "/dev/null", "true"], check=True, capture_output=True)
    except Exception as e:
        raise common.Inconclusive("strace unusable: %r" % (e,))
    nw = common.NCPU
    n = ctx.scale(320, 64000)
    ctx.pmap(worker, [(k, n // nw, ctx.seed) for k in range(nw)])
    nv = ctx.scale(160, 32000)
    ctx.pmap(vanished_worker, [(k, max(2, nv // nw), ctx.seed) for k in range(nw)])
    ctx.pmap(many_failures_worker, [(k, c_, ctx.seed) for k, c_ in enumerate([[255], [256], [257], [512], [1], [2, 3], [768, 1024]])])
    ctx.require("runs_with_hundreds_of_failed_removals", 7)
    import deep
    ctx.pmap(deep.deep_worker, [("delete", k, 1 if ctx.quick else 6, ctx.seed) for k in range(common.NCPU)])
    ctx.require("runs_over_a_tree_deeper_than_the_open_files_limit", 8)
    ctx.pmap(dot_worker, [(k, ctx.scale(8, 600), ctx.seed) for k in range(nw)])
    ctx.require("runs_with_dot_among_the_starting_points", 50)
    ctx.require("vanished_entries_evaluated", 10)
    for key in ("runs_with_failed_removal", "runs_mode_P", "runs_mode_H", "runs_mode_L", "link_entries_removed", "removal_events_observed", "sandboxes_with_non_utf8_names"):
        ctx.require(key, 3)
