"""C13 — -type/-xtype/-perm/-links/-inum/-uid/-gid/-user/-group/-empty/-samefile/-lname are functions of the status
record the follow mode selects.

Monitor: the real find (in-process find_main for volume, the binary for a sample) evaluates batches of labelled tests
over a sandbox that contains every creatable file type, links to each, dangling links, hard-link groups, many
permission values and owners; each interesting entry is also given as a starting point (depth 0), so -H differs from
-P. The oracle is computed in Python from os.lstat / os.stat / os.readlink per follow rule."""
import grp
import os
import pwd
import stat

import common
import fnm
import refwalk
import treegen
from common import Stats
from treegen import Node

IDS = [0, 1, 65534, 54321, 54322, 4, 5, 6, 60, 12]      # (sync 4:65534, games 5:60, man 6:12: accounts whose uid differs from their gid)


def build_sandbox(rng, sb, nperm):
    """Creates the sandbox under sb/s; returns (starting points, info dict)."""
    nodes = [Node("s", "d"), Node("s/types", "d"), Node("s/perm", "d"), Node("s/own", "d"), Node("s/hl", "d"), Node("s/deep", "d"),
             Node("s/deep/in", "d")]
    T = "s/types/"
    nodes += [Node(T + "f0", "f", size=0), Node(T + "f1", "f", size=7), Node(T + "d0", "d"), Node(T + "d1", "d"),
              Node(T + "d1/child", "f", size=1), Node(T + "fifo", "p"), Node(T + "sock", "s"), Node(T + "chr", "c"), Node(T + "blk", "b")]
    for tgt in ("f0", "f1", "d0", "d1", "fifo", "sock", "chr", "blk"):
        nodes.append(Node(T + "l_" + tgt, "l", target=tgt))
    nodes += [Node(T + "l_dangling", "l", target="nowhere"), Node(T + "l_dangling2", "l", target="f0/x"),
              Node(T + "l_l_f1", "l", target="l_f1"), Node(T + "l_l_d0", "l", target="l_d0"), Node(T + "l_abs", "l", target=os.path.join(sb, T + "f1")),
              Node(T + "l_up", "l", target="../perm")]
    # same in a deeper directory so that depth >= 2 entries exist for every kind
    D = "s/deep/in/"
    nodes += [Node(D + "g0", "f", size=0), Node(D + "g1", "f", size=3), Node(D + "e", "d"), Node(D + "lg1", "l", target="g1"),
              Node(D + "le", "l", target="e"), Node(D + "ldang", "l", target="missing"), Node(D + "ltypes", "l", target="../../types/d1")]
    # permissions
    perms = set([0, 0o7777, 0o660, 0o775, 0o002, 0o666, 0o664, 0o750, 0o640, 0o644, 0o755, 0o4755, 0o2755, 0o1777, 0o600, 0o400, 0o111, 0o222, 0o444, 0o4000, 0o2000, 0o1000, 0o777])
    while len(perms) < nperm:
        perms.add(rng.randrange(0o10000))
    perms = sorted(perms)
    for i, m in enumerate(perms):
        nodes.append(Node("s/perm/p%04o" % m, "f", size=i % 3, mode=m))
    for m in (0o700, 0o755, 0o1777, 0o2775, 0o500, 0o711):
        nodes.append(Node("s/perm/dir%04o" % m, "d", mode=m))
    nodes.append(Node("s/perm/l_p0644", "l", target="p0644"))
    nodes.append(Node("s/perm/l_p4755", "l", target="p4755"))
    # owners
    for u in IDS:
        for g in IDS:
            nodes.append(Node("s/own/u%d_g%d" % (u, g), "f", size=1, uid=u, gid=g))
    nodes.append(Node("s/own/l_own", "l", target="u1_g65534", uid=54321, gid=54322))
    nodes.append(Node("s/own/d_own", "d", uid=54321, gid=1))
    # hard-link groups
    for k in range(1, 7):
        nodes.append(Node("s/hl/h%d_0" % k, "f", size=k))
        for j in range(1, k):
            nodes.append(Node("s/hl/h%d_%d" % (k, j), "h", link_to="s/hl/h%d_0" % k))
    nodes.append(Node("s/hl/l_h3", "l", target="h3_1"))
    treegen.build(sb, nodes)
    roots = ["s", T + "l_f1", T + "l_d1", T + "l_d0", T + "l_dangling", T + "f1", T + "l_fifo", T + "l_l_f1", T + "l_sock", "s/perm/l_p4755",
             "s/own/l_own", "s/hl/l_h3", D + "le", D + "ltypes", T + "l_chr", T + "l_blk", T + "d0", "s/perm/p4755", T + "l_abs", "s/types", "s/deep/in", "s/hl"]
    return roots, {"perms": perms}


def collect_entries(sb, roots, mode):
    """Reference enumeration: list of refwalk.Entry for the follow mode (exactly-once per starting point)."""
    w = refwalk.Walk(mode, 0, None, False, True, sb)
    ents = []
    for r in roots:
        w.run(r, lambda e: ents.append(e) and False)
    return ents, w


def sym_of(m):
    def part(bits, special, ch):
        s = ""
        if bits & 4:
            s += "r"
        if bits & 2:
            s += "w"
        if bits & 1:
            s += "x"
        if special:
            s += ch
        return s
    return "u=%s,g=%s,o=%s" % (part((m >> 6) & 7, m & 0o4000, "s"), part((m >> 3) & 7, m & 0o2000, "s"), part(m & 7, m & 0o1000, "t"))


def name_of_uid(u):
    try:
        return pwd.getpwuid(u).pw_name
    except KeyError:
        return None


def name_of_gid(g):
    try:
        return grp.getgrgid(g).gr_name
    except KeyError:
        return None


def cmpn(spec, v):
    if spec.startswith("+"):
        return v > int(spec[1:])
    if spec.startswith("-"):
        return v < int(spec[1:])
    return v == int(spec)


class Test:
    __slots__ = ("args", "fn", "family", "domain")

    def __init__(self, args, fn, family, domain=None):
        self.args, self.fn, self.family, self.domain = args, fn, family, domain


def make_tests(rng, sb, info, ents_by_mode, quick):
    """List of Test(args, oracle(entry, mode) -> bool, family)."""
    tests = []
    P = ents_by_mode["P"]
    for letter in "fdlpscb":
        tests.append(Test(["-type", letter], lambda e, m, L=letter: e.type_letter() == L, "type"))
        tests.append(Test(["-xtype", letter], lambda e, m, L=letter: e.type_letter(e.xrec) == L, "xtype"))
    perms = info["perms"]
    cand = set([0, 0o7777, 0o111, 0o222, 0o444, 0o4000, 0o2000, 0o1000, 0o6000, 0o644, 0o755])
    for m in rng.sample(perms, min(len(perms), 24 if quick else 200)):
        cand.add(m)
        cand.add(m ^ (1 << rng.randrange(12)))
        cand.add(m & rng.randrange(0o10000))
    for M in sorted(cand):
        o = "%o" % M
        s = sym_of(M)
        for spell, fam in ((o, "perm-octal"), ("0" + o, "perm-octal"), (s, "perm-symbolic")):
            tests.append(Test(["-perm", spell], lambda e, m, M=M: stat.S_IMODE(e.rec.st_mode) == M, fam))
            tests.append(Test(["-perm", "-" + spell], lambda e, m, M=M: stat.S_IMODE(e.rec.st_mode) & M == M, fam))
            tests.append(Test(["-perm", "/" + spell], lambda e, m, M=M: M == 0 or stat.S_IMODE(e.rec.st_mode) & M != 0, fam))
    # a few extra symbolic spellings with explicit who
    for spell, M in (("a+r", 0o444), ("u+s", 0o4000), ("g+s", 0o2000), ("o+t", 0o1000), ("a=rwx", 0o777), ("u+x,g+x,o+x", 0o111), ("ug+w", 0o220), ("a+r,u+w", 0o644)):
        tests.append(Test(["-perm", "-" + spell], lambda e, m, M=M: stat.S_IMODE(e.rec.st_mode) & M == M, "perm-symbolic"))
        tests.append(Test(["-perm", "/" + spell], lambda e, m, M=M: stat.S_IMODE(e.rec.st_mode) & M != 0, "perm-symbolic"))
        tests.append(Test(["-perm", spell], lambda e, m, M=M: stat.S_IMODE(e.rec.st_mode) == M, "perm-symbolic"))
    # clauses without who letters: all of u, g, o - and, unlike chmod(1), NOT filtered through the caller's umask (the runs below
    # are made under umask 027, which would mask the group's w and everything of 'other')
    for spell, M in (("+w", 0o222), ("+x", 0o111), ("+r", 0o444), ("=rw", 0o666), ("+rwx", 0o777), ("=x", 0o111), ("+w,u+x", 0o322), ("=r,+w", 0o666)):
        tests.append(Test(["-perm", "-" + spell], lambda e, m, M=M: stat.S_IMODE(e.rec.st_mode) & M == M, "perm-symbolic-no-who"))
        tests.append(Test(["-perm", "/" + spell], lambda e, m, M=M: stat.S_IMODE(e.rec.st_mode) & M != 0, "perm-symbolic-no-who"))
        if not spell.startswith("+"):
            tests.append(Test(["-perm", spell], lambda e, m, M=M: stat.S_IMODE(e.rec.st_mode) == M, "perm-symbolic-no-who"))
    # clauses that depend on earlier clauses (copy, removal, re-assignment): chmod(1) semantics, octal equivalent known
    for spell, M in (("u=rw,g=u", 0o660), ("a=rwx,o-w", 0o775), ("u=rwx,u=r", 0o400), ("a=w,ug-w", 0o002), ("u=rwx,g=u,o=g", 0o777), ("a=rx,u+w", 0o755),
                     ("u=rwx,go=u-w", 0o755), ("a+rwx,a-x", 0o666), ("u=rw,go=", 0o600), ("ug=rw,o=u-w", 0o664), ("a=r,u+w,g+w", 0o664),
                     ("u=rwxs,g=rx,o=rx,u-s", 0o755), ("a=rwx,g-w,o-rwx", 0o750), ("u=rw,g=u,g-w", 0o640)):
        tests.append(Test(["-perm", spell], lambda e, m, M=M: stat.S_IMODE(e.rec.st_mode) == M, "perm-symbolic-dependent"))
        tests.append(Test(["-perm", "-" + spell], lambda e, m, M=M: stat.S_IMODE(e.rec.st_mode) & M == M, "perm-symbolic-dependent"))
        tests.append(Test(["-perm", "/" + spell], lambda e, m, M=M: M == 0 or stat.S_IMODE(e.rec.st_mode) & M != 0, "perm-symbolic-dependent"))
    for n in range(0, 8):
        for sg in ("", "+", "-"):
            tests.append(Test(["-links", sg + str(n)], lambda e, m, sp=sg + str(n): cmpn(sp, e.rec.st_nlink), "links"))
    inos = sorted(set(e.lst.st_ino for e in P))
    mnt = [e.lst.st_ino for e in P if e.path == "s/mnt"]
    for ino in rng.sample(inos, min(len(inos), 10 if quick else 60)) + mnt:
        for sg in ("", "+", "-"):
            tests.append(Test(["-inum", sg + str(ino)], lambda e, m, sp=sg + str(ino): cmpn(sp, e.rec.st_ino), "inum"))
    for u in IDS + [2, 65533, 54320]:
        for sg in ("", "+", "-"):
            tests.append(Test(["-uid", sg + str(u)], lambda e, m, sp=sg + str(u): cmpn(sp, e.rec.st_uid), "uid"))
            tests.append(Test(["-gid", sg + str(u)], lambda e, m, sp=sg + str(u): cmpn(sp, e.rec.st_gid), "gid"))
    for u in IDS:
        tests.append(Test(["-user", str(u)], lambda e, m, u=u: e.rec.st_uid == u, "user-number"))
        tests.append(Test(["-group", str(u)], lambda e, m, u=u: e.rec.st_gid == u, "group-number"))
        nm = name_of_uid(u)
        if nm and not nm.isdigit():
            tests.append(Test(["-user", nm], lambda e, m, u=u: e.rec.st_uid == u, "user-name"))
        gn = name_of_gid(u)
        if gn and not gn.isdigit():
            tests.append(Test(["-group", gn], lambda e, m, u=u: e.rec.st_gid == u, "group-name"))

    def empty(e, m):
        r = e.rec
        if stat.S_ISREG(r.st_mode):
            return r.st_size == 0
        if stat.S_ISDIR(r.st_mode):
            return len(os.listdir(os.path.join(sb, e.path))) == 0
        return False
    tests.append(Test(["-empty"], empty, "empty"))
    # -samefile with non-link reference files (the reference's own resolution is not part of the statement)
    for f in ["s/hl/h3_0", "s/hl/h3_2", "s/hl/h1_0", "s/types/f1", "s/types/d1", "s/types/fifo", "s/deep/in/g1", "s/perm/p0644", "s/hl/h6_5"]:
        fst = os.lstat(os.path.join(sb, f))
        tests.append(Test(["-samefile", f], lambda e, m, fst=fst: (e.rec.st_dev, e.rec.st_ino) == (fst.st_dev, fst.st_ino), "samefile"))
    # ... and with references that are dangling symbolic links (target missing: ENOENT; target path through a regular file: ENOTDIR):
    # no follow mode can resolve them, so the reference is the link itself under -P, -H and -L alike
    for f in ["s/types/l_dangling", "s/types/l_dangling2", "s/deep/in/ldang"]:
        fst = os.lstat(os.path.join(sb, f))
        tests.append(Test(["-samefile", f], lambda e, m, fst=fst: (e.rec.st_dev, e.rec.st_ino) == (fst.st_dev, fst.st_ino), "samefile-dangling-reference"))
    # -lname: the link itself must be the entry under the follow mode
    for pat in ("*", "f1", "l_*", "*1", "no*", "../*", "/*", "missing", "[fgh]?", "H3_1"):
        for cf in (False, True):
            def lname(e, m, pat=pat, cf=cf):
                if not stat.S_ISLNK(e.rec.st_mode):
                    return False
                return fnm.fnmatch(pat, os.readlink(os.path.join(sb, e.path)), cf)
            tests.append(Test(["-ilname" if cf else "-lname", pat], lname, "lname"))
    return tests


def probes_and_firsts(sb, tests):
    """Purity: the answer of a test must not depend on what was evaluated before it on the same entry. `probes` are tests
    whose answers differ between a link and its target for some entry of the sandbox; `firsts` is one test of every kind."""
    def ino(p):
        return os.lstat(os.path.join(sb, p)).st_ino
    want = [["-perm", "777"], ["-perm", "4755"], ["-perm", "644"], ["-perm", "-4000"], ["-perm", "/7000"], ["-inum", str(ino("s/types/f1"))],
            ["-inum", str(ino("s/types/l_f1"))], ["-links", "3"], ["-links", "1"], ["-uid", "54321"], ["-uid", "1"], ["-gid", "54322"], ["-gid", "65534"],
            ["-user", "54321"], ["-samefile", "s/types/f1"], ["-samefile", "s/hl/h3_0"], ["-empty"], ["-type", "f"], ["-type", "l"], ["-xtype", "f"],
            ["-xtype", "l"], ["-lname", "*"]]
    by_args = {tuple(t.args): t for t in tests}
    probes = [by_args[tuple(a)] for a in want if tuple(a) in by_args]
    firsts = []
    seen = set()
    for t in tests:
        key = (t.family, t.args[1][:1] if t.family in ("type", "xtype") and len(t.args) > 1 else "")
        if key not in seen:
            seen.add(key)
            firsts.append(t)
    return probes, firsts


def label_args(batch):
    args = ["("]
    for i, t in enumerate(batch):
        if i:
            args.append(",")
        args += t.args + ["-printf", "k%d:%%p\\0" % i]
    args.append(")")
    return args


def parse_labelled(out, n):
    sel = [[] for _ in range(n)]
    for rec in out.split(b"\0"):
        if not rec:
            continue
        k, _, p = rec.partition(b":")
        try:
            i = int(k[1:])
        except ValueError:
            return None
        if not k.startswith(b"k") or i >= n:
            return None
        sel[i].append(p.decode("utf-8", "surrogateescape"))
    return sel


def worker(job):
    k, nw, seed, quick = job
    st = Stats()
    rng = common.rng_for(seed, "C13", k)
    sb = common.mkscratch("C13w%d" % k)
    try:
        roots, info = build_sandbox(rng, sb, 64 if quick else 4096)
        # a mount point below a starting point (its status record is that of the mounted file system's root)
        import subprocess
        os.mkdir(os.path.join(sb, "s", "mnt"))
        if subprocess.run(["mount", "-t", "tmpfs", "-o", "size=64k", "none", os.path.join(sb, "s", "mnt")], capture_output=True).returncode == 0:
            st.inc("sandboxes_with_a_mount_point")
            open(os.path.join(sb, "s", "mnt", "inside"), "w").close()
        else:
            st.inc("mount_not_permitted")
        ents_by_mode = {}
        for mode in "PHL":
            ents, w = collect_entries(sb, roots, mode)
            if w.out_of_domain:
                raise common.Inconclusive("sandbox contains entries outside the judged domain")
            ents_by_mode[mode] = ents
        for e in ents_by_mode["P"]:
            st.inc("entries_of_type:" + e.type_letter())
        tests = make_tests(rng, sb, info, ents_by_mode, quick)
        probes, firsts = probes_and_firsts(sb, tests)
        rng.shuffle(tests)
        # each worker takes its share of the tests
        tests = [t for i, t in enumerate(tests) if i % nw == k]
        ordered = []
        for i, f in enumerate(firsts):
            if i % nw == k:
                ordered.append([f] + probes)                     # f evaluated first, then every probe
                ordered.append([f] + probes[::-1])
        # oracle answers under -P and -L differ for these evaluations (the discriminating ones)
        BATCH = 10
        cases = []
        meta = {}
        cid = 0
        # (-follow anywhere in the expression selects the -L records whatever -P / -H said before)
        for mode, lead, opt in (("P", ["-P"], []), ("H", ["-H"], []), ("L", ["-L"], []), ("L", ["-H"], ["-follow"]), ("L", [], ["-follow"]),
                                ("L", ["-P"], ["-follow"]),
                                # several of -P/-H/-L: the last one decides, whichever it is
                                ("P", ["-L", "-P"], []), ("P", ["-H", "-P"], []), ("L", ["-P", "-L"], []), ("H", ["-L", "-H"], []),
                                ("P", ["-L", "-H", "-P"], []), ("L", ["-H", "-L"], [])):
            batches = [tests[b:b + BATCH] for b in range(0, len(tests), BATCH)] + ordered
            if opt:
                batches = batches[::3]
            if len(lead) > 1:
                batches = batches[(len(lead) + ord(lead[0][1])) % 4::4]
                st.inc("batches_with_overridden_follow_flags", len(batches))
            for batch in batches:
                cid += 1
                args = ["find"] + lead + roots + opt + ["-sorted"] + label_args(batch)
                if opt:
                    st.inc("batches_with_follow_option_after_" + (lead[0] if lead else "nothing"))
                cases.append(("c%d" % cid, args))
                meta["c%d" % cid] = (mode, batch, args)
        old_umask = os.umask(0o027)
        try:
            res = common.run_find_inproc(cases, sb, sb)
        finally:
            os.umask(old_umask)
        # binary sample
        bin_ids = rng.sample(sorted(meta), min(len(meta), 6 if quick else 60))
        for c, (mode, batch, args) in meta.items():
            r = res[c]
            rp = {"args": args, "sandbox": "lib/c13.py build_sandbox(seed=%d, worker=%d)" % (seed, k)}
            if r.special or r.panic:
                st.violate("panic-or-hang", None, {"args": args, "panic": r.panic, "special": r.special}, rp)
                continue
            outs = [("inproc", r.out, r.code, r.fd2)]
            if c in bin_ids:
                rc, out, err, to = common.run_cmd([common.FIND] + args[1:], cwd=sb, env=common.clean_env(), timeout=120)
                st.inc("binary_runs")
                if to or rc in (101, 134, -6, -11):
                    st.violate("panic-or-hang", None, {"args": args, "rc": rc, "stderr": err[-300:]}, rp)
                    continue
                outs.append(("binary", out, rc, err))
            for via, out, code, err in outs:
                sel = parse_labelled(out, len(batch))
                if sel is None:
                    st.violate("garbled-output", None, {"args": args, "out": out[:200]}, rp)
                    continue
                ents = ents_by_mode[mode]
                for i, t in enumerate(batch):
                    want = [e.path for e in ents if t.fn(e, mode)]
                    st.inc("evaluations", len(ents))
                    st.inc("family:" + t.family)
                    if len(batch) > BATCH and i > 0:
                        st.inc("purity_evaluations(test after a different first test)", len(ents))
                    st.add("distinct", (mode, tuple(t.args)))
                    if via == "inproc":
                        # how many of these evaluations discriminate between the link and its target
                        pl = {(e.path, e.depth): t.fn(e, "P") for e in ents_by_mode["P"]}
                        for e in ents_by_mode["L"]:
                            v = pl.get((e.path, e.depth))
                            if v is not None and v != t.fn(e, "L"):
                                st.inc("evaluations_where_P_and_L_differ")
                    if sel[i] != want:
                        miss = [p for p in want if p not in sel[i]][:4]
                        extra = [p for p in sel[i] if p not in want][:4]
                        if not miss and not extra:
                            detail = "same set, different order/multiplicity"
                        else:
                            detail = None
                        st.violate("wrong-selection", None, {"mode": "-" + mode, "test": t.args, "via": via, "not_selected_but_should": miss,
                                                             "selected_but_should_not": extra, "note": detail, "stderr": (err or b"")[-200:]},
                                   dict(rp, test=t.args, mode=mode))
        st.sample({"mode": "-P", "tests": [t.args for t in tests[:5]], "starting_points": roots[:6]})
    finally:
        common.force_rmtree(sb)
    return st


def self_check():
    if sym_of(0o4755) != "u=rwxs,g=rx,o=rx" or sym_of(0o1000) != "u=,g=,o=t" or sym_of(0) != "u=,g=,o=":
        raise common.Inconclusive("symbolic mode rendering self-check failed")
    if not (cmpn("+3", 4) and cmpn("-3", 2) and cmpn("3", 3) and not cmpn("+3", 3)):
        raise common.Inconclusive("numeric comparison self-check failed")


def run(ctx):
    ctx.rule = ("one sandbox per worker with every creatable type (regular empty/non-empty, directory empty/non-empty, fifo, socket, char and "
                "block device), links to each, link chains, dangling links, hard-link groups with 1-6 links, 64 (quick) / 4096 (thorough) "
                "permission values, 25 owner/group combinations from ids {0,1,65534,54321,54322}; 22 starting points (the sandbox and "
                "interesting entries themselves, so depth 0 exists for links of every kind); tests -type/-xtype every letter, -perm exact/-/ "
                "in octal, 0-prefixed octal and symbolic spellings of the same mode, -links/-inum/-uid/-gid N +N -N, -user/-group by name and "
                "number, -empty, -samefile, -lname/-ilname; modes -P -H -L; evaluations = (entry, test, mode); distinct = (mode, test)")
    ctx.assumptions = ["oracle: lstat under -P; stat falling back to lstat under -L; stat at depth 0 only under -H (lib/refwalk.py Entry.rec / xrec)",
                       "ELOOP links, X in symbolic modes, -nouser/-nogroup, symlinks as -samefile reference not judged"]
    self_check()
    nw = common.NCPU
    ctx.pmap(worker, [(k, nw, ctx.seed, ctx.quick) for k in range(nw)])
    for key in ("family:type", "family:xtype", "family:perm-octal", "family:perm-symbolic", "family:perm-symbolic-dependent", "family:links", "family:inum", "family:uid",
                "family:user-name", "family:group-name", "family:empty", "family:samefile", "family:lname", "binary_runs",
                "evaluations_where_P_and_L_differ", "entries_of_type:l", "entries_of_type:p", "entries_of_type:s", "entries_of_type:c",
                "entries_of_type:b"):
        ctx.require(key, 3)
