"""C08 — find -exec ... {} + : each path delivered once, in order, within OS limits; -execdir batches per directory.

Monitors: recorder log (argv + cwd per invocation) vs the reached sequence from the reference evaluation; strace execve
results (E2BIG); truth of the action through a following labelled action; exit status under scripted failures."""
import os
import re
import resource

import common
import refeval
import refwalk
import treegen
import xref
from common import Stats

KIB, MIB = 1024, 1024 * 1024
E2BIG_RE = re.compile(rb"execve\(.*= -1 E2BIG")


def reference(sb, roots, toks):
    ast = refeval.Parser(toks).parse()
    opts = refeval.global_options(ast)
    env = refeval.Env(sb, exec_truth=lambda argv, e: True)

    def on_visit(e):
        env.prune = False
        refeval.evaluate(ast, e, env)
        if env.quit:
            raise refwalk.StopWalk()
        return env.prune
    per_root = []
    w = refwalk.Walk("P", opts["mindepth"], opts["maxdepth"], opts["depth_first"], True, sb)
    try:
        for r in roots:
            before = {k: len(v[1]) for k, v in env.plus.items()}
            try:
                w.run(r, on_visit)
            finally:
                per_root.append({k: (len(v[1]) - before.get(k, 0)) for k, v in env.plus.items()})
    except refwalk.StopWalk:
        pass
    return ast, env, per_root


def gen_small(rng, tag):
    kind = rng.choice(["-exec", "-exec", "-execdir"])
    fixed = [rng.choice(["fx", "-v", "a b", "{}x", "--"]) for _ in range(rng.choice([0, 0, 1, 2]))]
    act = [kind, common.REC, tag] + fixed + ["{}", "+"]
    shape = rng.choice(["plain", "after-test", "in-or", "quit", "two-actions", "negated", "with-depth", "maxdepth", "mindepth", "mindepth", "min-and-depth"])
    if shape == "plain":
        toks = act + ["-printf", "T:%p\\0"]
    elif shape == "after-test":
        toks = rng.choice([["-type", "f"], ["-name", "*a*"], ["!", "-name", "b"], ["-size", "-2"]]) + act + ["-printf", "T:%p\\0"]
    elif shape == "in-or":
        toks = ["-type", "d", "-printf", "D:%p\\0", "-o"] + act + ["-printf", "T:%p\\0"]
    elif shape == "quit":
        toks = act + ["-name", rng.choice(["a", "b", "c", "x.txt", "aa"]), "-quit"]
    elif shape == "two-actions":
        toks = act + [kind, common.REC, tag + "b", "second", "{}", "+", "-printf", "T:%p\\0"]
    elif shape == "negated":
        toks = ["!"] + act + ["-printf", "N:%p\\0", "-o", "-printf", "P:%p\\0"]
    elif shape == "mindepth":
        # entries that the walk produces but -mindepth hides must not blur the per-directory batches of -execdir
        toks = ["-mindepth", str(rng.randint(1, 3))] + rng.choice([[], ["-type", "f"]]) + act
    elif shape == "min-and-depth":
        toks = ["-mindepth", str(rng.randint(1, 3)), "-depth"] + act
    elif shape == "with-depth":
        toks = ["-depth"] + act
    else:
        toks = ["-maxdepth", str(rng.randint(0, 2))] + act
    return ["-sorted"] + toks, shape, kind, fixed


def check_run(st, sb, roots, toks, kind, tagset, rc, out, err, log, script, rp, label, strace_log=None, missing=False, tool_dirs=None):
    ast, renv, per_root = reference(sb, roots, toks)
    inv = xref.read_reclog(log)
    problems = []
    st.inc("child_invocations", len(inv))
    # group observed invocations by tag (argv[0])
    by_tag = {}
    for seq, (cwd, argv) in enumerate(inv):
        a = [x.decode("utf-8", "surrogateescape") for x in argv]
        by_tag.setdefault(a[0] if a else "?", []).append((seq, os.path.relpath(cwd.decode("utf-8", "surrogateescape"), sb), a))
    exp_by_tag = {}
    for _, (node, items) in renv.plus.items():
        exp_by_tag[node[2][1]] = (node, items)
    for tag, (node, items) in exp_by_tag.items():
        fixed = list(node[2][1:])           # tag + fixed arguments
        if tool_dirs is not None:
            items = [it for it in items if (it[0] or "") in tool_dirs]      # batches of the other directories cannot be started
        runs = by_tag.get(tag, [])
        flat = []
        for seq, cwd, a in runs:
            if a[:len(fixed)] != fixed:
                problems.append("invocation does not start with the fixed arguments: %r" % a[:len(fixed) + 2])
                break
            paths = a[len(fixed):]
            if not paths:
                problems.append("invocation without any path")
            flat += paths
            if node[1] == "-execdir":
                # all entries of one directory, named ./basename, cwd = that directory
                start = len(flat) - len(paths)
                ds = set(d for (d, arg, p) in items[start:start + len(paths)])
                if len(ds) > 1:
                    problems.append("-execdir batch mixes directories %r" % sorted(ds))
                elif ds:
                    d = ds.pop()
                    if os.path.normpath(cwd) != os.path.normpath(d if d else "."):
                        problems.append("-execdir batch for directory %r ran in %r" % (d, cwd))
                bad = [x for x in paths if not x.startswith("./") or "/" in x[2:].rstrip("/")]
                if bad:
                    problems.append("-execdir argument not of the form ./basename: %r" % bad[:3])
            else:
                if os.path.normpath(cwd) != ".":
                    problems.append("-exec batch ran in %r" % cwd)
        want = [arg for (d, arg, p) in items]
        if missing:
            want = []

        if flat != want and not problems:
            if sorted(flat) == sorted(want):
                problems.append("paths delivered in another order than the visit order")
            else:
                lost = [p for p in want if p not in flat][:4]
                dup = [p for p in set(flat) if flat.count(p) > want.count(p)][:4]
                problems.append("paths not delivered exactly once: %d expected, %d delivered; lost %r; duplicated/unknown %r" % (len(want), len(flat), lost, dup))
        st.inc("paths_delivered", len(flat))
        if len(runs) >= 2:
            st.inc("actions_with_several_batches")
        st.c["max_batch_size"] = max(st.c["max_batch_size"], max([len(a) - len(fixed) for _, _, a in runs] or [0]))
    for tag in by_tag:
        if tag not in exp_by_tag:
            problems.append("unexpected invocation tagged %r" % tag)
    d = refeval.match_chunks(out, renv.sinks.get("stdout", []))
    if d:
        problems.append("truth of the action / following output: " + d)
    # exit status
    failed = False
    if script:
        outcomes = script.split(",")
        for seq in range(len(inv)):
            if seq < len(outcomes) and outcomes[seq] != "0":
                failed = True
                if outcomes[seq].startswith("k"):
                    st.inc("invocations_killed_by_signal")
    if missing:
        failed = any(items for _, (node, items) in renv.plus.items())
    if tool_dirs is not None:
        failed = any((d or "") not in tool_dirs for _, (node, items) in renv.plus.items() for (d, arg, p) in items)
        if failed:
            st.inc("runs_where_some_batches_cannot_be_started")
    if failed:
        st.inc("runs_with_failing_invocation")
        if rc == 0:
            problems.append("exit status 0 although an invocation failed / could not start")
    elif rc != 0:
        problems.append("exit status %r although every invocation succeeded; stderr %r" % (rc, err[-200:]))
    if strace_log:
        try:
            sdata = open(strace_log, "rb").read()
        except FileNotFoundError:
            raise common.Inconclusive("no strace log")
        n_exec = sdata.count(b"execve(")
        st.inc("execve_events", n_exec)
        e2 = [l for l in sdata.split(b"\n") if E2BIG_RE.search(l)]
        if e2:
            problems.append("execve rejected with E2BIG: %r" % e2[0][:200])
    if renv.evaluated_quit:
        st.inc("runs_with_quit")
    if problems:
        st.violate("exec-plus", None, {"args": ["find"] + roots + toks, "scenario": label, "problems": problems[:5], "exit": rc,
                                       "stderr": err[-200:]}, rp)
    return len(inv)


def small_worker(job):
    k, nruns, seed = job
    st = Stats()
    rng = common.rng_for(seed, "C08s", k)
    base = common.mkscratch("C08w%d" % k)
    try:
        for t in range(nruns):
            sb = os.path.join(base, "t%d" % t)
            os.makedirs(sb)
            if rng.random() < 0.3:
                nodes = treegen.hostile_tree(rng, "r", max_nodes=15)
            elif rng.random() < 0.1:
                nodes = [treegen.Node("r", "d")]
            elif rng.random() < 0.3:
                # sibling directories that hold only plain files, two levels
                nodes = [treegen.Node("r", "d")]
                for dn in rng.sample(["a", "b", "c", "d", "e"], rng.randint(2, 4)):
                    nodes.append(treegen.Node("r/" + dn, "d"))
                    for fn in rng.sample(["1", "2", "3", "x.txt"], rng.randint(1, 3)):
                        nodes.append(treegen.Node("r/%s/%s" % (dn, fn), "f"))
                    if rng.random() < 0.4:
                        nodes.append(treegen.Node("r/%s/sub" % dn, "d"))
                        nodes.append(treegen.Node("r/%s/sub/deep" % dn, "f"))
            else:
                nodes = treegen.random_tree(rng, "r", max_nodes=rng.choice([5, 15, 40]), link_kinds=("file", "dangling"))
            if rng.random() < 0.25:
                # names that are not valid UTF-8: every batch must still carry the exact bytes
                dirs_ = [n.path for n in nodes if n.kind == "d"]
                for nm in rng.sample(["caf\udce9", "x\udcff", "\udce8re", "a\udc80b", "é\udce9"], rng.randint(1, 3)):
                    pth = rng.choice(dirs_) + "/" + nm
                    if all(n.path != pth for n in nodes):
                        nodes.append(treegen.Node(pth, rng.choice(["f", "f", "d"])))
                st.inc("trees_with_non_utf8_names")
            # one run in eight: -execdir ./tool ... {} + where only some directories contain the tool - a batch that cannot be started
            # (and says so) must not keep the batches of later directories from running
            tool_dirs = None
            if rng.random() < 0.125:
                tool_dirs = set()
                for dn in [n.path for n in nodes if n.kind == "d"]:
                    if rng.random() < 0.55 and all(n.path != dn + "/tool" for n in nodes):
                        nodes.append(treegen.Node(dn + "/tool", "l", target=common.REC))
                        tool_dirs.add(dn)
            try:
                treegen.build(sb, nodes)
            except OSError:
                common.force_rmtree(sb)
                continue
            tag = "X%d_%d" % (k, t)
            toks, shape, kind, fixed = gen_small(rng, tag)
            if tool_dirs is not None:
                if rng.random() < 0.5:
                    os.symlink(common.REC, os.path.join(sb, "tool"))       # the directory the starting point itself lives in
                    tool_dirs.add("")
                toks = [("-execdir" if x == "-exec" else "./tool" if x == common.REC else x) for x in toks]
                kind = "-execdir"
                st.inc("runs_with_a_tool_that_exists_in_some_directories_only")
            roots = ["r"]
            dirs = [n.path for n in nodes if n.kind == "d" and n.path != "r" and not any(0xDC80 <= ord(ch) <= 0xDCFF for ch in n.path)]
            if dirs and rng.random() < 0.25:
                roots = ["r", rng.choice(dirs)]
                st.inc("runs_with_two_starting_points")
            script = None
            missing = False
            r = rng.random()
            if tool_dirs is not None:
                pass
            elif r < 0.35:
                script = ",".join(rng.choice(["0", "0", "0", "1", "2", "255", "k9", "k15"]) for _ in range(40))
                if rng.random() < 0.3:
                    # exactly one invocation dies from a signal, everything else succeeds
                    script = ",".join("k9" if j == rng.randrange(3) else "0" for j in range(3)) + ",0" * 20
            elif r < 0.45:
                missing = True
                badcmd = "/nonexistent/verif-cmd"
                if rng.random() < 0.5:
                    # a command that exists but cannot be started (no execute bit, a directory, not an executable format): the same
                    # contract as for a missing one - nothing runs, find's exit status is non-zero
                    bd = os.path.join(base, "verif-badcmd-%d" % t)
                    os.makedirs(os.path.join(bd, "cmddir"), exist_ok=True)
                    with open(os.path.join(bd, "noexec"), "w") as f_:
                        f_.write("#!/bin/sh\nexit 0\n")
                    os.chmod(os.path.join(bd, "noexec"), 0o644)
                    with open(os.path.join(bd, "garbage"), "wb") as f_:
                        f_.write(b"\x00\x01\x02 not an executable format \xff\n")
                    os.chmod(os.path.join(bd, "garbage"), 0o755)
                    badcmd = os.path.join(bd, rng.choice(["noexec", "cmddir", "garbage"]))
                    st.inc("runs_with_a_command_that_exists_but_cannot_be_started")
                toks = [(badcmd if x == common.REC else x) for x in toks]
            log = os.path.join(sb, "rec.log")
            env = common.clean_env({"VERIF_REC_LOG": log})
            if script:
                env["VERIF_REC_SCRIPT"] = script
            rc, out, err, to = common.run_cmd([common.FIND] + roots + toks, cwd=sb, env=env, timeout=120)
            st.inc("evaluations")
            st.inc("shape:" + shape)
            st.inc("kind:" + kind)
            st.add("distinct", (tuple(roots), tuple(toks), tuple(n.path for n in nodes)))
            rp = {"tree": [n.to_json() for n in nodes], "args": ["find"] + roots + toks, "script": script}
            if to or rc in (101, 134, -6, -11):
                st.violate("panic-or-hang", None, {"args": toks, "rc": rc, "stderr": err[-300:]}, rp)
            else:
                if missing:
                    st.inc("missing_command_runs")
                check_run(st, sb, roots, toks, kind, None, rc, out, err, log, script, rp, "small/" + shape, missing=missing, tool_dirs=tool_dirs)
            if t % 17 == 0:
                st.sample({"args": ["find"] + roots + toks, "exit": rc})
            common.force_rmtree(sb)
    finally:
        common.force_rmtree(base)
    return st


def big_worker(job):
    idx, n, namelen, stack, env_kb, kind, seed, deep = job[:8]
    ndirs_override = job[8] if len(job) > 8 else None
    st = Stats()
    rng = common.rng_for(seed, "C08b", idx)
    sb = common.mkscratch("C08big")
    try:
        nodes = [treegen.Node("r", "d")]
        ndirs = ndirs_override or max(1, n // 400)
        for d in range(ndirs):
            dp = "r/" + ("d%03d" % d)
            if deep:
                dp = "r/" + "/".join("lvl%d" % i for i in range(d % 6 + 1)) + ("/d%03d" % d)
                parts = dp.split("/")
                for i in range(2, len(parts)):
                    pp = "/".join(parts[:i])
                    if not any(x.path == pp for x in nodes):
                        nodes.append(treegen.Node(pp, "d"))
            nodes.append(treegen.Node(dp, "d"))
            for i in range(n // ndirs):
                nm = ("f%05d_" % i) + rng.choice("abcxyz") * (namelen - 7 - (i % 5))
                nodes.append(treegen.Node(dp + "/" + nm, "f"))
        treegen.build(sb, nodes)
        log = os.path.join(sb, "rec.log")
        slog = os.path.join(sb, "strace.log")
        env = common.clean_env({"VERIF_REC_LOG": log})
        left = env_kb * 1000
        i = 0
        while left > 0:
            env["VERIF_PAD%d" % i] = "p" * min(left, 100000)
            left -= 100000
            i += 1
        script = None
        if idx % 3 == 1:
            script = ",".join(rng.choice(["0", "0", "0", "1", "k15"]) for _ in range(400)) if idx % 2 else "0,k9" + ",0" * 60
        elif idx % 3 == 0:
            script = "1,0"       # only the first (mid-walk) batch fails
        if script:
            env["VERIF_REC_SCRIPT"] = script
        tag = "XB%d" % idx
        toks = ["-sorted", "-type", "f", kind, common.REC, tag, "fixed arg", "{}", "+", "-printf", "T:%p\\0"]

        def pre():
            soft, hard = resource.getrlimit(resource.RLIMIT_STACK)
            resource.setrlimit(resource.RLIMIT_STACK, (resource.RLIM_INFINITY if stack < 0 else stack, hard))
        rc, out, err, to = common.run_cmd(["strace", "-f", "-qq", "-o", slog, "-e", "trace=execve", "-s", "8", common.FIND, "r"] + toks,
                                          cwd=sb, env=env, timeout=1200, preexec_fn=pre)
        st.inc("evaluations")
        st.inc("big_runs")
        label = "big n=%d namelen=%d stack=%s env=%dKB %s" % (n, namelen, "unlimited" if stack < 0 else "%dKiB" % (stack // KIB), env_kb, kind)
        st.add("distinct", label)
        rp = {"scenario": label}
        if to:
            st.inc("watchdog")
            st.notes.append("watchdog on " + label)
            return st
        if rc in (101, 134, -6, -11):
            st.violate("panic", None, {"scenario": label, "rc": rc, "stderr": err[-300:]}, rp)
            return st
        ninv = check_run(st, sb, ["r"], toks, kind, None, rc, out, err, log, script, rp, label, strace_log=slog)
        st.c["max_batches_in_one_run"] = max(st.c["max_batches_in_one_run"], ninv)
        st.sample({"scenario": label, "invocations": ninv, "exit": rc})
    finally:
        common.force_rmtree(sb)
    return st


def unreadable_worker(job):
    """Walks as an unprivileged user over starting points and directories that may be examined but not opened (mode 000): they are
    visited themselves, reading them fails (diagnostic, non-zero exit) - and every entry collected for a '{} +' action, the unreadable
    directories included, still reaches the command before find exits."""
    k, nruns, seed = job
    st = Stats()
    rng = common.rng_for(seed, "C08u", k)
    base = common.mkscratch("C08u%d" % k)
    os.chmod(base, 0o755)
    try:
        probe = common.run_cmd([common.REC, "probe"], cwd=base, env=common.clean_env(), timeout=30, preexec_fn=common.drop_to(65534))
        if probe[0] != 0:
            st.inc("unprivileged_runs_not_possible")
            return st
        for t in range(nruns):
            sb = os.path.join(base, "t%d" % t)
            os.makedirs(sb)
            os.chmod(sb, 0o777)
            nodes = [treegen.Node("r", "d"), treegen.Node("r/a", "f"), treegen.Node("r/sub", "d"), treegen.Node("r/sub/b", "f"),
                     treegen.Node("r/sub/locked", "d"), treegen.Node("r/sub/locked/inner", "f"), treegen.Node("r/zz", "f"),
                     treegen.Node("locked", "d"), treegen.Node("locked/inner", "f"), treegen.Node("r2", "d"), treegen.Node("r2/c", "f")]
            treegen.build(sb, nodes)
            os.chmod(os.path.join(sb, "r/sub/locked"), 0)
            os.chmod(os.path.join(sb, "locked"), 0)
            roots = rng.choice([["locked"], ["r", "locked"], ["locked", "r2"], ["r", "locked", "r2"], ["r"], ["r2", "r", "locked"], ["./locked"]])
            kind = rng.choice(["-exec", "-execdir"])
            tag = "U%d_%d" % (k, t)
            pre = rng.choice([[], ["-sorted"], ["-depth"]])
            toks = pre + [kind, common.REC, tag, "{}", "+"]
            log = os.path.join(sb, "rec.log")
            for f_ in (log, log + ".n"):
                open(f_, "w").close()
                os.chmod(f_, 0o666)
            rc, out, err, to = common.run_cmd([common.FIND] + roots + toks, cwd=sb, env=common.clean_env({"VERIF_REC_LOG": log}), timeout=60,
                                              preexec_fn=common.drop_to(65534))
            st.inc("evaluations")
            st.inc("runs_over_unreadable_directories_as_an_unprivileged_user")
            st.inc("kind:" + kind)
            st.add("distinct", ("unreadable", tuple(roots), tuple(toks[:-4])))
            rp = {"tree": [n.to_json() for n in nodes], "args": ["find"] + roots + toks, "uid": 65534, "mode_000": ["locked", "r/sub/locked"]}
            if to or rc in (101, 134, -6, -11):
                st.violate("panic-or-hang", None, {"args": toks, "rc": rc, "stderr": err[-300:]}, rp)
                common.force_rmtree(sb)
                continue
            want = []
            for r_ in roots:
                top = r_[2:] if r_.startswith("./") else r_
                for n in nodes:
                    if (n.path == top or n.path.startswith(top + "/")) and not n.path.endswith("/inner"):
                        want.append(r_ + n.path[len(top):])
            got = []
            for cwd_, argv in xref.read_reclog(log):
                rel = os.path.relpath(cwd_.decode(), sb)
                for a in argv[1:]:
                    a = a.decode("utf-8", "surrogateescape")
                    got.append(os.path.normpath(os.path.join(rel, a)) if kind == "-execdir" else a)
            if kind == "-execdir":
                want = [os.path.normpath(w_) for w_ in want]
            problems = []
            if sorted(got) != sorted(want):
                problems.append("delivered %r, expected %r (missing %r)" % (sorted(got)[:12], sorted(want)[:12], sorted(set(want) - set(got))[:6]))
            locked_reached = any(w_.endswith("locked") for w_ in want)
            if locked_reached and (rc == 0 or not err.strip()):
                problems.append("exit status %r, stderr %r although a directory could not be read" % (rc, err[-200:]))
            if not locked_reached and rc != 0:
                problems.append("exit status %r, stderr %r" % (rc, err[-200:]))
            if problems:
                st.violate("exec-plus", None, {"args": ["find"] + roots + toks, "uid": 65534, "problems": problems, "exit": rc, "stderr": err[-300:]}, rp)
            for d_ in ("locked", "r/sub/locked"):
                os.chmod(os.path.join(sb, d_), 0o755)
            common.force_rmtree(sb)
    finally:
        common.force_rmtree(base)
    return st


def deep_cwd_worker(job):
    """find started in a working directory whose own absolute name is close to PATH_MAX, with a relative starting point: the directories
    -execdir runs in have absolute names longer than PATH_MAX, but are perfectly reachable the way find reached them - every entry is
    still delivered."""
    k, nruns, seed = job
    st = Stats()
    rng = common.rng_for(seed, "C08d", k)
    base = common.mkscratch("C08d%d" % k)
    try:
        for t in range(nruns):
            top = os.path.join(base, "t%d" % t)
            os.mkdir(top)
            comps = []
            total = len(top)
            want_len = rng.choice([3700, 3900, 4050, 5000])
            while total < want_len:
                c_ = rng.choice("abcdefgh") * rng.choice([100, 200, 250])
                comps.append(c_)
                total += len(c_) + 1
            fd = os.open(top, os.O_RDONLY | os.O_DIRECTORY)
            for c_ in comps:
                os.mkdir(c_, dir_fd=fd)
                nfd = os.open(c_, os.O_RDONLY | os.O_DIRECTORY, dir_fd=fd)
                os.close(fd)
                fd = nfd
            # the tree below the deep working directory: r/<A>/<B>/f*, built relative to the descriptor
            names = []
            cur, rel = fd, "r"
            os.mkdir("r", dir_fd=fd)
            cur = os.open("r", os.O_RDONLY | os.O_DIRECTORY, dir_fd=fd)
            names.append("r")
            for lvl in range(rng.choice([1, 2, 3])):
                for f_ in ("f%d" % lvl, "g %d" % lvl):
                    os.close(os.open(f_, os.O_CREAT | os.O_WRONLY, 0o644, dir_fd=cur))
                    names.append(f_)
                dn = rng.choice("xyz") * rng.choice([150, 240])
                os.mkdir(dn, dir_fd=cur)
                names.append(dn)
                nfd = os.open(dn, os.O_RDONLY | os.O_DIRECTORY, dir_fd=cur)
                os.close(cur)
                cur = nfd
            os.close(cur)
            os.close(fd)

            def pre(top=top, comps=comps):
                os.chdir(top)
                for c_ in comps:
                    os.chdir(c_)
            kind = rng.choice(["-execdir", "-execdir", "-exec"])
            tag = "D%d_%d" % (k, t)
            log = os.path.join(base, "rec-%d.log" % t)
            args = [common.FIND, "r", kind, common.REC, tag, "{}", "+"]
            rc, out, err, to = common.run_cmd(args, cwd=top, env=common.clean_env({"VERIF_REC_LOG": log}), timeout=120, preexec_fn=pre)
            st.inc("evaluations")
            st.inc("runs_from_a_working_directory_near_PATH_MAX")
            st.inc("kind:" + kind)
            st.add("distinct", ("deep-cwd", total, kind, len(names)))
            got = []
            for cwd_, argv in xref.read_reclog(log):
                got += [a.decode().rsplit("/", 1)[-1] for a in argv[1:]]
            rp = {"generator": "lib/c08.py deep_cwd_worker", "seed": seed, "k": k, "t": t, "cwd_bytes": total, "args": ["find", "r", kind, "rec", tag, "{}", "+"]}
            problems = []
            if to or rc in (101, 134, -6, -11):
                problems.append("crashed or hung: exit %r, stderr %r" % (rc, err[-200:]))
            else:
                if sorted(got) != sorted(names):
                    problems.append("delivered %d of %d entries (missing %r)" % (len(got), len(names), [n[:12] for n in sorted(set(names) - set(got))][:5]))
                if rc != 0:
                    problems.append("exit status %r, stderr %r" % (rc, err[-200:]))
            if problems:
                st.violate("exec-plus", None, {"args": rp["args"], "working_directory_bytes": total, "problems": problems}, rp)
            common.force_rmtree(top)
    finally:
        common.force_rmtree(base)
    return st


def run(ctx):
    ctx.rule = ("(small) random/hostile trees from empty to 40 entries x 8 expression shapes (after tests, in -o, negated, -quit, two "
                "+ actions, -depth, -maxdepth) x -exec/-execdir x 1-2 starting points x scripted failing invocations / missing command; "
                "(big) thousands of 100-240-byte names in flat and deep layouts under RLIMIT_STACK 512KiB..8MiB and padded "
                "environments, traced with strace; distinct = scenario")
    ctx.assumptions = ["reference evaluator for the reached sequence", "starting points spelled without '..' or '/.'", "strace as execve recorder"]
    nw = common.NCPU
    n = ctx.scale(480, 96000)
    ctx.pmap(small_worker, [(k, n // nw, ctx.seed) for k in range(nw)])
    ctx.pmap(deep_cwd_worker, [(k, ctx.scale(3, 120), ctx.seed) for k in range(nw)])
    ctx.pmap(unreadable_worker, [(k, ctx.scale(6, 400), ctx.seed) for k in range(nw)])
    if ctx.stats.c.get("unprivileged_runs_not_possible"):
        ctx.stats.notes.append("uid 65534 cannot execute the recorder from here: the unreadable-directory workload was not run")
    big = [
        (0, 6000, 200, 512 * KIB, 1, "-exec", ctx.seed, False),
        (1, 3000, 240, 512 * KIB, 30, "-exec", ctx.seed, True),
        (2, 2000, 100, 1 * MIB, 100, "-execdir", ctx.seed, False),
        (3, 4000, 150, 8 * MIB, 1, "-exec", ctx.seed, True),
        (4, 2400, 200, 512 * KIB, 1, "-execdir", ctx.seed, True),
        # -execdir with single directories that do NOT fit one command line (batches dispatched because they are full)
        (5, 3000, 200, 512 * KIB, 1, "-execdir", ctx.seed, False, 2),
        (6, 2400, 230, 512 * KIB, 30, "-execdir", ctx.seed, True, 1),
        (7, 3000, 150, 1 * MIB, 1, "-execdir", ctx.seed, False, 1),
    ]
    if not ctx.quick:
        k = 8
        for nn in (10000, 40000):
            for stack in (512 * KIB, 1 * MIB, 8 * MIB, -1):
                for kind in ("-exec", "-execdir"):
                    big.append((k, nn, 100 + 35 * (k % 5), stack, [1, 60, 100][k % 3], kind, ctx.seed, k % 2 == 0, [None, 1, 3][k % 3]))
                    k += 1
    ctx.pmap(big_worker, big, nproc=6)
    for key in ("actions_with_several_batches", "runs_with_quit", "runs_with_failing_invocation", "missing_command_runs",
                "kind:-execdir", "runs_with_two_starting_points", "big_runs", "invocations_killed_by_signal"):
        ctx.require(key, 2)
