"""C09 — find -exec ... ; : one run per file, {} substituted everywhere, argv intact, true iff exit 0.

Monitor: recorder log (cwd + argv of every child, in order) of the real find binary vs the textual substitution model;
truth value observed through a following labelled action; find's own exit status."""
import os

import common
import refeval
import refwalk
import treegen
import xref
from common import Stats

TEMPLATE_PIECES = ["{}", "{}", "x{}", "{}y", "a{}b", "{}{}", "{}-{}", "{", "}", "}{", "", "-print", "-o", "(", ")", "!", ",", "+",
                   "plain", "--opt={}", "é{}ü", "{} {}", "'{}'", "$1", "*", "{ }", "{}/{}/{}", "-exec"]


def gen_template(rng):
    t = [rng.choice(TEMPLATE_PIECES) for _ in range(rng.choice([0, 1, 1, 2, 3, 4]))]
    # "{} +" would terminate the action as the batching form
    return [("plus" if a == "+" and i and t[i - 1] == "{}" else a) for i, a in enumerate(t)]


def exec_truth(argv, e):
    # recorder outcome (VERIF_REC_FN=outcome8): chain % 8 in {0,1} exit 0; 2 exit 1; 3 exit 128; 4 killed by SIGKILL; 5 exit 255; 6 exit 127;
    # 7 exit 129 - true iff the command exited with status 0
    return refeval.rec_chain(argv[1:]) % 8 in (0, 1)


def gen_expr(rng, tag):
    """Returns token list; REC is the command except in the missing-command shape."""
    kind = rng.choice(["-exec", "-exec", "-execdir"])
    tmpl = gen_template(rng)
    shape = rng.choice(["plain", "after-test", "negated", "in-or", "twice", "missing-command", "after-type", "unexecutable-command", "relative-tool",
                        "then-plus"])
    cmd = common.REC
    ex = [kind, cmd, tag] + tmpl + [";"]
    if shape == "plain":
        toks = ex + ["-printf", "T:%p\\0", "-o", "-printf", "F:%p\\0"]
    elif shape == "after-test":
        toks = ["-name", rng.choice(["*a*", "*", "[!-]*", "* *"])] + ex + ["-printf", "T:%p\\0", "-o", "-printf", "F:%p\\0"]
    elif shape == "after-type":
        toks = ["-type", rng.choice("fd")] + ex + ["-printf", "T:%p\\0"]
    elif shape == "negated":
        toks = ["!"] + ex + ["-printf", "N:%p\\0", "-o", "-printf", "P:%p\\0"]
    elif shape == "in-or":
        toks = ["-type", "d", "-o"] + ex + ["-printf", "T:%p\\0"]
    elif shape == "then-plus":
        # a ';' action followed, later in the same expression, by a batching '{} +' action: each keeps its own terminator
        toks = ex + ["-printf", "T:%p\\0", rng.choice(["-exec", "-execdir"]), cmd, tag + "plus", "{}", "+"]
    elif shape == "twice":
        toks = ex + [kind, cmd, tag + "b"] + gen_template(rng) + [";", "-printf", "TT:%p\\0"]
    elif shape == "relative-tool":
        # -execdir ./tool: the command exists in some directories only, so starting it fails with ENOENT for some entries and
        # works for later ones — every entry is still a separate, independent run
        kind = "-execdir"
        toks = ["-execdir", "./tool", tag] + tmpl + [";", "-printf", "T:%p\\0", "-o", "-printf", "F:%p\\0"]
    elif shape == "unexecutable-command":
        # the command exists but cannot be run (no execute bit / a directory / garbage with the execute bit): the action is
        # false and find's own exit status stays 0, exactly as for a missing command
        bad = rng.choice(["NOEXEC", "CMDDIR", "GARBAGE"])
        toks = [kind, "@" + bad + "@", tag] + tmpl + [";", "-printf", "T:%p\\0", "-o", "-printf", "F:%p\\0"]
    else:
        toks = [kind, "/nonexistent/verif-cmd", tag] + tmpl + [";", "-printf", "T:%p\\0", "-o", "-printf", "F:%p\\0"]
    return ["-sorted"] + toks, shape, kind, tmpl


def missing_truth(argv, e):
    if argv[0] == "/nonexistent/verif-cmd" or "/verif-badcmd-" in argv[0]:
        return False
    return exec_truth(argv, e)


def worker(job):
    k, nruns, seed = job
    st = Stats()
    rng = common.rng_for(seed, "C09", k)
    base = common.mkscratch("C09w%d" % k)
    try:
        for t in range(nruns):
            sb = os.path.join(base, "t%d" % t)
            os.makedirs(sb)
            # the tree's top directory: usually r; sometimes a name that starts with '-' (the lone '-' can be given as an operand,
            # others only through -files0-from): {} is still the path as find prints it, byte for byte
            top = rng.choice(["r"] * 8 + ["-", "-d1", "-name"])
            nodes = treegen.hostile_tree(rng, top, max_nodes=rng.choice([5, 10, 20]))
            raw_names = False
            if rng.random() < 0.3:
                # names that are not valid UTF-8 (carried as surrogate escapes): {} must still receive the exact bytes
                raw_names = True
                dirs_ = [n.path for n in nodes if n.kind == "d"]
                for nm in rng.sample(["caf\udce9", "x\udcff", "\udce8re", "a\udc80b", "\udcfe\udcff", "é\udce9", "sp \udca0"], rng.randint(1, 3)):
                    pth = rng.choice(dirs_) + "/" + nm
                    if all(n.path != pth for n in nodes):
                        nodes.append(treegen.Node(pth, rng.choice(["f", "f", "d"])))
                        if nodes[-1].kind == "d":
                            dirs_.append(pth)
                st.inc("trees_with_non_utf8_names")
            tag = "X%d_%d" % (k, t)
            toks, shape, kind, tmpl = gen_expr(rng, tag)
            tool_dirs = set()
            if shape == "relative-tool":
                for dn in [n.path for n in nodes if n.kind == "d"]:
                    if rng.random() < 0.5 and all(n.path != dn + "/tool" for n in nodes):
                        nodes.append(treegen.Node(dn + "/tool", "l", target=common.REC))
                        tool_dirs.add(dn)
                st.inc("relative_tool_runs")
            try:
                treegen.build(sb, nodes)
            except OSError:
                common.force_rmtree(sb)
                continue
            for n in nodes:
                for c in treegen.hostile_classes(n.path.rsplit("/", 1)[-1]):
                    st.add("hostile_classes", c)
            # the starting point: usually r, sometimes an entry with several path components (-execdir at depth 0 must then
            # run in its parent directory and name it ./basename)
            root = top
            if top != "r":
                st.inc("starting_points_beginning_with_a_dash")
            cands = [n.path for n in nodes if top == "r" and n.path != "r" and not any(0xDC80 <= ord(ch) <= 0xDCFF for ch in n.path) and "\n" not in n.path
                     and n.kind in ("d", "f")]
            if cands and rng.random() < 0.3:
                root = rng.choice(cands)
                st.inc("multi_component_starting_points")
            if kind == "-exec" and top == "r" and shape != "relative-tool" and rng.random() < 0.3:
                # the starting point spelled with a trailing slash, a doubled slash, './' or '/.': {} is the path as find prints it,
                # not a tidied-up version of it
                if root == "r":
                    root = rng.choice(["r/", "r//", "./r", "r/." if shape != "then-plus" else "r/", ".//r/"])
                else:
                    head, tail = root.split("/", 1)
                    isdir = any(n.path == root and n.kind == "d" for n in nodes)
                    root = rng.choice([head + "//" + tail, head + "/./" + tail, root + ("/" if isdir else ""), "./" + root, head + "/" + tail.replace("/", "//")])
                st.inc("starting_points_spelled_untidily")
                st.add("root_spellings", root if len(root) < 8 else "long")
            if shape == "unexecutable-command":
                bd = os.path.join(base, "verif-badcmd-%d" % t)
                os.makedirs(bd, exist_ok=True)
                paths = {"@NOEXEC@": os.path.join(bd, "noexec"), "@CMDDIR@": os.path.join(bd, "cmddir"), "@GARBAGE@": os.path.join(bd, "garbage")}
                with open(paths["@NOEXEC@"], "w") as f_:
                    f_.write("#!/bin/sh\nexit 0\n")
                os.chmod(paths["@NOEXEC@"], 0o644)
                os.makedirs(paths["@CMDDIR@"], exist_ok=True)
                with open(paths["@GARBAGE@"], "wb") as f_:
                    f_.write(b"\x00\x01\x02 not an executable format \xff\n")
                os.chmod(paths["@GARBAGE@"], 0o755)
                toks = [paths.get(x, x) for x in toks]
                st.inc("unexecutable_command_runs")
            log = os.path.join(sb, "rec.log")
            env = common.clean_env({"VERIF_REC_LOG": log, "VERIF_REC_FN": "outcome8"})
            toks_run = toks
            if shape in ("plain", "after-test", "negated", "in-or", "twice", "after-type", "then-plus") and rng.random() < 0.15:
                # the command given as a bare name and found through PATH - behind an earlier PATH directory that holds something
                # of the same name which cannot be executed (a file without execute bit, a directory): the search goes on, as execvp's does
                pd = os.path.join(base, "verif-path-%d" % t)
                os.makedirs(os.path.join(pd, "d1"))
                os.makedirs(os.path.join(pd, "d2"))
                if rng.random() < 0.6:
                    with open(os.path.join(pd, "d1", "verif-rec"), "w") as f_:
                        f_.write("#!/bin/sh\nexit 0\n")
                    os.chmod(os.path.join(pd, "d1", "verif-rec"), 0o644)
                else:
                    os.mkdir(os.path.join(pd, "d1", "verif-rec"))
                os.symlink(common.REC, os.path.join(pd, "d2", "verif-rec"))
                env["PATH"] = "%s:%s:%s" % (os.path.join(pd, "d1"), os.path.join(pd, "d2"), env.get("PATH", "/usr/bin:/bin"))
                toks_run = [("verif-rec" if x == common.REC else x) for x in toks]
                st.inc("runs_with_a_bare_command_behind_an_unexecutable_namesake")
            if root.startswith("-") and root != "-":
                lf = os.path.join(base, "roots-%d.lst" % t)
                with open(lf, "wb") as f_:
                    f_.write(root.encode() + b"\0")
                rc, out, err, to = common.run_cmd([common.FIND, "-files0-from", lf] + toks_run, cwd=sb, env=env, timeout=120)
            else:
                rc, out, err, to = common.run_cmd([common.FIND, root] + toks_run, cwd=sb, env=env, timeout=120)
            st.inc("evaluations")
            st.inc("shape:" + shape)
            st.inc("kind:" + kind)
            st.inc("templates_with_%d_braces" % min(3, sum(a.count("{}") for a in tmpl)))
            rp = {"tree": [n.to_json() for n in nodes], "args": ["find", root] + toks}
            if to or rc in (101, 134, -6, -11):
                st.violate("panic-or-hang", None, {"args": toks, "rc": rc, "stderr": err[-300:]}, rp)
                common.force_rmtree(sb)
                continue
            ast = refeval.Parser(toks).parse()
            def truth(argv, e, tool_dirs=tool_dirs):
                if argv[0] == "./tool":
                    d_ = e.path.rsplit("/", 1)[0] if "/" in e.path else ""
                    return d_ in tool_dirs and exec_truth(argv, e)
                return missing_truth(argv, e)
            renv = refeval.Env(sb, exec_truth=truth)

            def on_visit(e):
                refeval.evaluate(ast, e, renv)
                return False
            w = refwalk.Walk("P", 0, None, False, True, sb)
            w.run(root, on_visit)
            exp_runs = [(d, argv[1:]) for (name, d, argv, path) in renv.exec_log if argv[0] == common.REC or (argv[0] == "./tool" and d in tool_dirs)]
            exp_plus = [arg for (_ast, lst) in renv.plus.values() for (d_, arg, path_) in lst]
            for d_, a_ in exp_runs:
                st.inc("child_outcome:" + ["exit0", "exit0", "exit1", "exit128", "SIGKILL", "exit255", "exit127", "exit129"][refeval.rec_chain(a_) % 8])
            got = xref.read_reclog(log)
            got_runs = []
            got_plus = []
            for cwd, argv in got:
                rel = os.path.relpath(cwd.decode("utf-8", "surrogateescape"), sb)
                argv_s = [a.decode("utf-8", "surrogateescape") for a in argv]
                if shape == "then-plus" and argv_s and argv_s[0] == tag + "plus":
                    got_plus += argv_s[1:]
                    continue
                got_runs.append((rel, argv_s))
            st.inc("child_invocations", len(got_runs))
            st.add("distinct", (tuple(toks), tuple(n.path for n in nodes)))
            problems = []
            want_runs = []
            for d, argv in exp_runs:
                if kind == "-execdir":
                    want_runs.append((d if d else ".", argv))
                else:
                    want_runs.append((".", argv))
            if len(got_runs) != len(want_runs):
                problems.append("%d child runs, expected %d" % (len(got_runs), len(want_runs)))
            else:
                for g, wv in zip(got_runs, want_runs):
                    if g[1] != wv[1]:
                        if len(g[1]) != len(wv[1]):
                            problems.append("argv element count changed: %r expected %r" % (g[1], wv[1]))
                        else:
                            problems.append("argv differs: %r expected %r" % (g[1], wv[1]))
                        break
                    if os.path.normpath(g[0]) != os.path.normpath(wv[0]):
                        problems.append("working directory %r expected %r (argv %r)" % (g[0], wv[0], g[1][:3]))
                        break
            chunks = renv.sinks.get("stdout", [])
            if raw_names:
                # -printf renders such names lossily (U+FFFD); the truth labels are compared after the same conversion
                exp_b = b"".join(c[1] for c in chunks).decode("utf-8", "replace").encode("utf-8")
                d = None if exp_b == out else "labelled output differs (compared after lossy conversion): expected %r, observed %r" % (exp_b[:120], out[:120])
            else:
                d = refeval.match_chunks(out, chunks)
            if d:
                problems.append("truth value / following action: " + d)
            if shape == "then-plus":
                st.inc("runs_with_a_plus_action_after_the_semicolon_action")
                if sorted(got_plus) != sorted(exp_plus):
                    problems.append("the '{} +' action after the ';' action received %r, expected %r" % (got_plus[:6], exp_plus[:6]))
            if rc != 0 and not (shape == "then-plus" and rc == 1 and exp_plus):
                problems.append("find exit status %r (stderr %r)" % (rc, err[-160:]))
            if shape == "missing-command":
                st.inc("missing_command_runs")
            if problems:
                st.violate("exec-single", None, {"args": ["find", root] + toks, "problems": problems[:4], "stderr": err[-200:]}, rp)
            if t % 10 == 0:
                # the root directory as a starting point (a path without a parent): -exec still runs in find's own working directory
                xlog = os.path.join(sb, "rec-root.log")
                roots2 = rng.choice([["/"], ["/", "/"], ["//"], ["/."]])
                a2 = [common.FIND] + roots2 + ["-maxdepth", "0", "-exec", common.REC, tag + "root", "x{}y", "{}", ";"]
                rc2, out2, err2, to2 = common.run_cmd(a2, cwd=sb, env=common.clean_env({"VERIF_REC_LOG": xlog}), timeout=60)
                runs2 = [(os.path.realpath(cwd_.decode()), [x.decode("utf-8", "surrogateescape") for x in argv_]) for cwd_, argv_ in xref.read_reclog(xlog)]
                want2 = [(os.path.realpath(sb), [tag + "root", "x%sy" % r_, r_]) for r_ in roots2]
                st.inc("evaluations")
                st.inc("runs_on_the_root_directory")
                if runs2 != want2 or rc2 != 0:
                    st.violate("exec-single", None, {"args": ["find"] + a2[1:], "problems": ["runs (cwd, argv) %r, expected %r" % (runs2[:3], want2[:3])],
                                                     "exit": rc2, "stderr": err2[-200:]}, {"args": ["find"] + a2[1:]})
            if t % 10 == 3 and top == "r":
                # find's own standard output cannot be written (a full device) and output is pending in its buffer when the action is
                # reached: what happens to find's output is C11's and C01's business - the command is still run once per entry, in order
                import subprocess
                xlog = os.path.join(sb, "rec-full.log")
                pr = rng.choice([["-printf", "x"], ["-printf", "%p"], ["-print0"], ["-printf", "a\\nb"], []])
                a4 = [common.FIND, "r", "-sorted"] + pr + [kind, common.REC, tag + "full", "{}", ";"]
                try:
                    with open("/dev/full", "wb") as so:
                        p4 = subprocess.run(a4, cwd=sb, env=common.clean_env({"VERIF_REC_LOG": xlog}), stdout=so, stderr=subprocess.PIPE, timeout=120)
                    rc4, err4, to4 = p4.returncode, p4.stderr, False
                except subprocess.TimeoutExpired:
                    rc4, err4, to4 = None, b"", True
                seq4 = []
                w4 = refwalk.Walk("P", 0, None, False, True, sb)
                w4.run("r", lambda e: seq4.append(e.path) and False)
                runs4 = [[x.decode("utf-8", "surrogateescape") for x in argv_] for cwd_, argv_ in xref.read_reclog(xlog)]
                if kind == "-execdir":
                    want4 = [[tag + "full", "./" + p_.rsplit("/", 1)[-1]] for p_ in seq4]
                else:
                    want4 = [[tag + "full", p_] for p_ in seq4]
                st.inc("evaluations")
                st.inc("runs_with_pending_output_on_an_unwritable_stdout")
                if to4 or rc4 in (101, 134, -6, -11) or runs4 != want4:
                    st.violate("exec-single", None, {"args": ["find"] + a4[1:], "stdout": "/dev/full",
                                                     "problems": ["%d runs, expected %d (first difference: %r)" % (
                                                         len(runs4), len(want4), next(((g, w_) for g, w_ in zip(runs4 + [None], want4 + [None]) if g != w_), None))],
                                                     "exit": rc4, "stderr": err4[-200:]}, {"args": ["find"] + a4[1:], "stdout": "/dev/full", "tree": [n.to_json() for n in nodes]})
            if t % 10 == 5 and top == "r":
                # starting points whose last component is '..' (or that are '/'): -execdir on an entry directly below them runs in
                # that directory - which is not find's own working directory here
                dirs2 = [n.path for n in nodes if n.kind == "d" and n.path != "r" and not any(0xDC80 <= ord(ch) <= 0xDCFF for ch in n.path)
                         and "\n" not in n.path]
                if dirs2:
                    wd2 = rng.choice(dirs2)
                    rootsp = rng.choice(["..", "../", "./..", "../../" + wd2.split("/")[-2] + "/.." if wd2.count("/") >= 2 else ".."])
                    xlog = os.path.join(sb, "rec-dotdot.log")
                    a3 = [common.FIND, rootsp, "-mindepth", "1", "-maxdepth", "1", "-sorted", "-execdir", common.REC, tag + "dd", "{}", ";"]
                    rc3, out3, err3, to3 = common.run_cmd(a3, cwd=os.path.join(sb, wd2), env=common.clean_env({"VERIF_REC_LOG": xlog}), timeout=60)
                    parent = os.path.realpath(os.path.join(sb, wd2, rootsp))
                    names3 = sorted(os.listdir(parent), key=os.fsencode)
                    runs3 = [(os.path.realpath(cwd_.decode("utf-8", "surrogateescape")), [x.decode("utf-8", "surrogateescape") for x in argv_])
                             for cwd_, argv_ in xref.read_reclog(xlog)]
                    want3 = [(parent, [tag + "dd", "./" + nm]) for nm in names3]
                    st.inc("evaluations")
                    st.inc("execdir_runs_below_a_dotdot_starting_point")
                    if runs3 != want3 or rc3 != 0:
                        st.violate("exec-single", None, {"args": ["find"] + a3[1:], "cwd": wd2,
                                                         "problems": ["runs (cwd, argv) %r, expected %r" % (runs3[:3], want3[:3])], "exit": rc3,
                                                         "stderr": err3[-200:]}, {"args": ["find"] + a3[1:], "cwd": wd2, "tree": [n.to_json() for n in nodes]})
            if t % 13 == 0:
                st.sample({"args": ["find", "r"] + toks, "runs": got_runs[:2]})
            common.force_rmtree(sb)
    finally:
        common.force_rmtree(base)
    return st


def run(ctx):
    ctx.rule = ("hostile file names (blanks, quotes, newlines, {}, leading dashes, glob/control/multibyte characters) x argument "
                "templates with 0-3 {} per argument, embedded/adjacent {}, lone braces, empty arguments, arguments that look like "
                "find primaries x -exec/-execdir x 7 positions of the action (plain, after tests, negated, in -o, twice, missing "
                "command); recorder outcome (exit 0 / 1 / 127 / 128 / 129 / 255 / death by SIGKILL) is a pure function of argv; distinct = (expression, tree)")
    ctx.assumptions = ["reference evaluator + substitution model template.replace('{}', path)", "starting point spelled 'r' (basename well defined)",
                       "'{}' in the command name itself not judged"]
    nw = common.NCPU
    n = ctx.scale(480, 128000)
    ctx.pmap(worker, [(k, n // nw, ctx.seed) for k in range(nw)])
    for key in ("kind:-exec", "kind:-execdir", "missing_command_runs", "templates_with_0_braces", "templates_with_3_braces", "shape:negated", "child_outcome:SIGKILL",
                "child_outcome:exit128", "child_outcome:exit255", "child_outcome:exit0", "trees_with_non_utf8_names",
                "unexecutable_command_runs", "relative_tool_runs", "multi_component_starting_points"):
        ctx.require(key, 3)
