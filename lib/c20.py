"""C20 — xargs -I: one run per non-empty input line, every occurrence of R replaced by the whole line.

Monitor: recorder argv per invocation of the real xargs binary vs the textual substitution model; option-order matrix
for -I/-n/-L (the last one given decides the mode)."""
import itertools
import os

import common
import xref
from common import Stats

RS = ["{}", "_", "%", "XX", "{", "@@", "§", "→", "«»", "é", "日本", "{}", "{}", "aab", "abab", "{{}"]
WORDS = ["a", "b c", "x  y", "file name.txt", "-n", "--", "é ü", "a{}b", "{}", "_", "%", "XX", "1 2 3", "tab\there", "q", "*", "$HOME",
         # lines that are not valid UTF-8 (carried as surrogate escapes): "the entire line" means its bytes
         "caf\udce9", "\udcff\udcfe x", "a\udcc3", "\udce6\udc97 b"]


def gen_lines(rng, R):
    n = rng.choice([0, 1, 1, 2, 3, 5, 8])
    lines = []
    for _ in range(n):
        if rng.random() < 0.15:
            lines.append("")
            continue
        w = rng.choice(WORDS)
        if rng.random() < 0.3:
            w = w + " " + rng.choice(WORDS)
        if rng.random() < 0.2:
            w = R + w
        if rng.random() < 0.1:
            w = w + R
        w = w.lstrip(" \t")            # leading blanks are outside the statement; trailing ones belong to "the entire line"
        if rng.random() < 0.25:
            w = w.rstrip(" \t") + rng.choice([" ", "  ", "\t", " \t "])
        if any(c in w for c in "'\"\\"):
            continue
        if w.strip(" \t") == "":
            continue
        lines.append(w)
    return lines


def gen_initial(rng, R):
    out = []
    for _ in range(rng.choice([0, 1, 1, 2, 3, 4])):
        k = rng.random()
        if k < 0.25:
            out.append(rng.choice(["fixed", "-v", "a b", "", "x=y"]))
        elif k < 0.5:
            out.append(R)
        elif k < 0.7:
            out.append("pre" + R + "post")
        elif k < 0.85:
            out.append(R + R)
        elif k < 0.93 or len(R) < 2:
            out.append(R + "-" + R + "/" + R)
        else:
            # R directly after a proper prefix of itself ({{}}, aaab for R = aab): the occurrence must still be found
            pre = R[:rng.randint(1, len(R) - 1)]
            out.append(rng.choice([pre + R, pre + R + R[-1:], "$" + pre + R + "}", pre + pre + R, R + pre + R]))
    return out


def spell_I(rng, R):
    """Option spellings for replace mode; returns (argv tokens, effective R)."""
    k = rng.random()
    if k < 0.5:
        return ["-I", R], R
    if k < 0.65 and not R.startswith("-"):
        return ["-I" + R], R
    if k < 0.8:
        return ["--replace=" + R], R
    if k < 0.9:
        return ["-i"], "{}"
    return ["--replace"], "{}"


def judge_replace(st, detail, rp, r, lines, initial, R, want_rc=0):
    exp = [[a.replace(R, ln).encode("utf-8", "surrogateescape") for a in initial] for ln in lines if ln != ""]
    got = [argv for _, argv in r.invocations]
    problems = []
    if r.rc != want_rc:
        problems.append("exit status %r, expected %r" % (r.rc, want_rc))
    if got != exp:
        if len(got) != len(exp):
            problems.append("%d invocations, expected %d (one per non-empty line)" % (len(got), len(exp)))
        else:
            for g, e in zip(got, exp):
                if g != e:
                    if len(g) > len(e):
                        problems.append("arguments appended: %r expected %r" % (g, e))
                    else:
                        problems.append("argv %r expected %r" % (g, e))
                    break
    if problems:
        st.violate("replace-mode", None, dict(detail, problems=problems, expected=exp[:4], observed=got[:4]), rp)


def worker(job):
    k, nruns, seed = job
    st = Stats()
    rng = common.rng_for(seed, "C20", k)
    wd = common.mkscratch("C20w%d" % k)
    try:
        for i in range(nruns):
            R = rng.choice(RS)
            optI, Reff = spell_I(rng, R)
            lines = gen_lines(rng, Reff)
            data = "".join(l + "\n" for l in lines).encode("utf-8", "surrogateescape")
            if lines and rng.random() < 0.2:
                data = data[:-1]
            initial = gen_initial(rng, Reff)
            mix = rng.random()
            if i % 25 == 0:
                lines, data = [], rng.choice([b"", b"\n", b"\n\n"])
                mix = 0
            oversized_at = None
            if mix < 0.6 and i % 25 != 0 and rng.random() < 0.12 and any(Reff in a for a in initial):
                # a line that cannot be passed at all (longer than the -s budget, or than the OS limit for one argument): an input
                # error (status 1) - after the lines before it have been run, in order
                oversized_at = rng.randint(0, len(lines))
                big, sopt = rng.choice([(200000, []), (3000, ["-s", "2000"]), (140000, []), (70000, ["-s", "65536"])])
                lines = lines[:oversized_at] + ["x" * big] + lines[oversized_at:]
                data = "".join(l + "\n" for l in lines).encode("utf-8", "surrogateescape")
                optI = sopt + list(optI)
            if mix < 0.6:
                opts = list(optI)
                mode = "I"
                if rng.random() < 0.15:
                    opts = rng.choice([["-n", "1"] + opts, opts + ["-n", "1"]])
                    st.inc("I_with_n1")
            else:
                # all orderings of a subset of {-I R, -n k, -L k}; the last one decides
                parts = {"I": optI, "n": ["-n", str(rng.choice([2, 3]))], "L": ["-L", str(rng.choice([1, 2]))]}
                subset = rng.choice([("I", "n"), ("I", "L"), ("n", "L"), ("I", "n", "L")])
                order = list(rng.choice(list(itertools.permutations(subset))))
                opts = [t for o in order for t in parts[o]]
                mode = order[-1]
                st.add("option_orders", tuple(order))
            st.add("R_spellings", optI[0].split("=")[0] if optI[0].startswith("--") else optI[0][:2])
            # one replace-mode run in five: the command fails (status 1..125) for some lines - every line is still run once, in order,
            # and the failure of ANY line, not only of the last, shows in the exit status (123)
            script, want_rc = None, 0
            nlines = len([l_ for l_ in lines if l_ != ""])
            if mix < 0.6 and oversized_at is None and nlines and rng.random() < 0.2:
                outcomes = [rng.choice(["0", "0", "1", "2", "125"]) for _ in range(nlines)]
                script = ",".join(outcomes)
                want_rc = 123 if any(o != "0" for o in outcomes) else 0
                st.inc("replace_mode_runs_with_failing_command")
                if outcomes[-1] == "0" and want_rc == 123:
                    st.inc("replace_mode_runs_where_only_earlier_lines_fail")
            if mix < 0.6 and oversized_at is None and nlines and rng.random() < 0.15:
                # a size limit (-s) only a few bytes above what the largest command line of this run needs - whether measured as built
                # (initial arguments with the line substituted) or as read (initial arguments plus the line): every line still fits,
                # so every line is still run
                enc = lambda x: x.encode("utf-8", "surrogateescape")
                cmd_cost = len(enc(common.REC)) + 1
                tmpl = cmd_cost + sum(len(enc(a)) + 1 for a in initial)
                need = 0
                for ln in lines:
                    if ln == "":
                        continue
                    built = cmd_cost + sum(len(enc(a.replace(Reff, ln))) + 1 for a in initial)
                    need = max(need, built, tmpl + len(enc(ln)) + 1)
                opts = ["-s", str(need + rng.choice([1, 1, 2, 3, 8]))] + opts
                st.inc("replace_mode_runs_with_a_size_limit_that_just_fits")
                if rng.random() < 0.5:
                    # -x (stop when something does not fit) changes nothing when every line fits on its own: lines are never added up
                    opts.insert(rng.choice([0, len(opts)]), "-x")
                    st.inc("replace_mode_runs_with_x_and_a_size_limit_that_just_fits")
            r = xref.run_xargs(wd, opts, [a.encode() for a in initial], data, script=script)
            st.inc("evaluations")
            st.add("distinct", (tuple(opts), tuple(initial), data))
            st.inc("child_invocations", len(r.invocations))
            detail = {"argv": ["xargs"] + opts + ["rec"] + initial, "stdin": data, "exit": r.rc, "stderr": r.err[-160:]}
            rp = {"opts": opts, "initial": initial, "stdin": common.hx(data)}
            if r.timed_out or r.rc in (101, 134, -6, -11):
                st.violate("panic-or-hang", None, detail, rp)
                continue
            if not lines or all(l == "" for l in lines):
                st.inc("empty_input_runs")
            if oversized_at is not None:
                st.inc("runs_with_a_line_too_long_to_pass")
                detail["stdin"] = data[:200] + b"..." if len(data) > 200 else data
                before = [ln for ln in lines[:oversized_at] if ln != ""]
                exp = [[a.replace(Reff, ln).encode("utf-8", "surrogateescape") for a in initial] for ln in before]
                got = [argv for _, argv in r.invocations]
                if got != exp or r.rc != 1 or not r.err.strip():
                    st.violate("replace-mode", None, dict(detail, problems=["a line too long to pass: expected the %d lines before it to be "
                               "run, then exit status 1 with a diagnostic" % len(exp)], expected=exp[:4], observed=[g[:3] for g in got[:4]],
                               oversized_line_index=oversized_at), rp)
            elif mode == "I":
                st.inc("replace_mode_runs")
                if not Reff.isascii():
                    st.inc("replace_mode_runs_with_multibyte_R")
                if any("\udc80" <= ch <= "\udcff" for l in lines for ch in l):
                    st.inc("replace_mode_runs_with_lines_that_are_not_utf8")
                judge_replace(st, detail, rp, r, lines, initial, Reff, want_rc)
            else:
                st.inc("mode_%s_after_mixed_options" % mode)
                tok = xref.tokenize(data)
                if tok.error or not tok.in_domain:
                    continue
                import c04
                base = len(common.REC.encode()) + 1 + sum(len(a.encode()) + 1 for a in initial)
                nn = int(parts["n"][1]) if mode == "n" else None
                LL = int(parts["L"][1]) if mode == "L" else None
                exp, bounds, last = c04.greedy(tok.tokens, nn, LL, None, base)
                exp = exp + [last[0]] if tok.tokens else [[]]
                got = []
                ok = True
                for _, argv in r.invocations:
                    if argv[:len(initial)] != [a.encode() for a in initial]:
                        ok = False
                    got.append(argv[len(initial):])
                if not ok or got != exp or r.rc != 0:
                    st.violate("mode-not-decided-by-last-option", None,
                               dict(detail, mode_expected="-" + mode, expected_batches=exp[:5], observed=got[:5]), rp)
            if st.c["evaluations"] % 61 == 1:
                st.sample({"argv": detail["argv"], "stdin": data[:60], "invocations": [a for _, a in r.invocations][:3]})
    finally:
        common.force_rmtree(wd)
    return st


def nul_worker(job):
    """(round 9) -I together with -0 / --null: the items are the NUL-terminated stretches (C05: split only at that one byte) and each
    item is a 'line' of replace mode: one run per non-empty item, in order, R replaced by the whole item - blanks and newlines included."""
    k, n, seed = job
    st = Stats()
    rng = common.rng_for(seed, "C20nul", k)
    wd = common.mkscratch("C20z%d" % k)
    try:
        for i in range(n):
            items = []
            for _ in range(rng.randint(0, 6)):
                w = [rng.choice(["a", "bc", "d e", "x  y", "f\ng", "é", "1", "z z z", "end\n", ""]) for _ in range(rng.randint(1, 2))]
                items.append("".join(w))
            R = rng.choice(["{}", "_", "%", "XX"])
            optI = ["-I", R] if R != "{}" or rng.random() < 0.5 else rng.choice([["-i"], ["--replace"]])
            nul = rng.choice([["-0"], ["--null"]])
            opts = nul + optI if rng.random() < 0.5 else optI + nul
            initial = [rng.choice(["X" + R, R, "pre", R + "-" + R, "a b", "Y" + R + "Z"]) for _ in range(rng.randint(1, 3))]
            data = "\0".join(items).encode() + (b"\0" if items and rng.random() < 0.7 else b"")
            r = xref.run_xargs(wd, opts, [a.encode() for a in initial], data)
            st.inc("evaluations")
            st.inc("replace_mode_runs_with_nul_terminated_items")
            st.add("distinct", (tuple(opts), tuple(initial), data))
            if any("\n" in it or " " in it for it in items):
                st.inc("nul_items_with_blanks_or_newlines")
            detail = {"argv": ["xargs"] + opts + ["REC"] + initial, "stdin": repr(data[:80])}
            rp = {"opts": opts, "initial": initial, "stdin": data.hex()}
            if r.timed_out or r.rc in (101, 134, -6, -11):
                st.violate("panic-or-hang", None, dict(detail, rc=r.rc, stderr=r.err[-200:]), rp)
                continue
            judge_replace(st, detail, rp, r, items, initial, R)
    finally:
        common.force_rmtree(wd)
    return st


def run(ctx):
    ctx.rule = ("0-8 input lines (internal blanks, containing R itself, empty lines interleaved, last line without newline), "
                "initial argument lists with 0-3 occurrences of R per argument, R in {{}, _, %, XX, {, @@, §, →, «», é, 日本} spelled -I R / -IR / "
                "--replace=R / -i / --replace, -I with -n 1, a line too long to be passed (with/without -s) at every position, and every ordering of every subset of {-I, -n, -L}; "
                "distinct = (options, initial arguments, input)")
    ctx.assumptions = ["lines free of quotes, backslashes and leading blanks (statement's own restriction); blank-only lines not used"]
    if ctx.replay:
        import json
        rp = json.load(open(ctx.replay))["replay"]
        r = xref.run_xargs(ctx.scratch(), rp["opts"], [a.encode() for a in rp["initial"]], bytes.fromhex(rp["stdin"]))
        print("exit", r.rc, "stderr", r.err, "invocations", r.invocations)
        raise common.Inconclusive("replay shown above")
    nw = common.NCPU
    n = ctx.scale(1600, 480000)
    ctx.pmap(worker, [(k, n // nw, ctx.seed) for k in range(nw)])
    ctx.pmap(nul_worker, [(k, ctx.scale(12, 2000), ctx.seed) for k in range(nw)])
    ctx.require("nul_items_with_blanks_or_newlines", 20)
    for key in ("empty_input_runs", "replace_mode_runs", "mode_n_after_mixed_options", "mode_L_after_mixed_options", "I_with_n1",
                "replace_mode_runs_with_multibyte_R", "runs_with_a_line_too_long_to_pass",
                "replace_mode_runs_with_lines_that_are_not_utf8", "replace_mode_runs_where_only_earlier_lines_fail"):
        ctx.require(key, 3)
