"""Independent model of find's traversal, written from the property statements (C02, C03, C18),
using only os.lstat / os.stat / os.listdir."""
import errno
import os
import stat


class StopWalk(Exception):
    pass


class Entry:
    __slots__ = ("path", "depth", "lst", "st", "follow", "root", "dangling")

    def __init__(self, path, depth, lst, st, follow, root, dangling=False):
        self.path, self.depth, self.lst, self.st, self.follow, self.root = path, depth, lst, st, follow, root
        self.dangling = dangling

    @property
    def rec(self):
        """The status record the follow mode selects."""
        if self.follow and self.st is not None:
            return self.st
        return self.lst

    @property
    def xrec(self):
        """The record -xtype looks at (the opposite choice)."""
        if self.follow:
            return self.lst
        return self.st if self.st is not None else self.lst

    @property
    def name(self):
        p = self.path
        s = p.rstrip("/")
        if s == "":
            return "/"
        return s.rsplit("/", 1)[-1]

    @property
    def is_dir(self):
        return stat.S_ISDIR(self.rec.st_mode)

    @property
    def is_link(self):
        return stat.S_ISLNK(self.rec.st_mode)

    def type_letter(self, rec=None):
        m = (rec or self.rec).st_mode
        for f, c in ((stat.S_ISREG, "f"), (stat.S_ISDIR, "d"), (stat.S_ISLNK, "l"), (stat.S_ISFIFO, "p"),
                     (stat.S_ISSOCK, "s"), (stat.S_ISCHR, "c"), (stat.S_ISBLK, "b")):
            if f(m):
                return c
        return "?"


def follows(mode, depth):
    return mode == "L" or (mode == "H" and depth == 0)


def join(parent, name):
    return parent + name if parent.endswith("/") else parent + "/" + name


class Walk:
    """events: list of ('visit', Entry) / ('error', kind, path, optional_flag).
    kinds: missing, unreadable, loop, eloop."""

    def __init__(self, mode="P", mindepth=0, maxdepth=None, depth_first=False, sorted_=True, cwd=None):
        self.mode, self.mindepth, self.maxdepth = mode, mindepth, maxdepth
        self.depth_first, self.sorted = depth_first, sorted_
        self.cwd = cwd
        self.errors = []
        self.optional = set()  # paths that may or may not be reported
        self.deny = set()      # directories whose listing fails (fault injection; the oracle runs as root)
        self.out_of_domain = False
        self.unreadable_required = False   # a directory that cannot be listed is itself still an entry (visited once)
        self.xdev = False      # -xdev / -mount: a directory on another file system than the starting point is visited, not descended

    def _abs(self, p):
        if self.cwd and not p.startswith("/"):
            return os.path.join(self.cwd, p)
        return p

    def run(self, root, on_visit):
        """on_visit(entry) -> truthy to prune (pre-order only). May raise StopWalk."""
        self._root = root
        self._on_visit = on_visit
        try:
            self._root_dev = os.stat(self._abs(root)).st_dev
        except OSError:
            self._root_dev = None
        self._visit(root, 0, [])

    def _visit(self, path, depth, ancestors):
        ap = self._abs(path)
        try:
            if path == "":
                raise FileNotFoundError(2, "empty name")      # the empty string names nothing
            lst = os.lstat(ap)
        except OSError as e:
            if depth == 0:
                self.errors.append(("missing", path, False))
            else:
                self.errors.append(("vanished", path, True))
            return
        f = follows(self.mode, depth)
        st = None
        dangling = False
        if stat.S_ISLNK(lst.st_mode):
            try:
                st = os.stat(ap)
            except OSError as e:
                if e.errno in (errno.ENOENT, errno.ENOTDIR):
                    dangling = True
                elif e.errno == errno.ELOOP:
                    if f:
                        self.errors.append(("eloop", path, False))
                        self.out_of_domain = True
                        self.optional.add(path)
                        return
                    dangling = True
                elif e.errno == errno.EACCES:
                    if f:
                        self.errors.append(("eacces", path, False))
                        self.out_of_domain = True
                        self.optional.add(path)
                        return
                else:
                    raise
        else:
            st = lst
        ent = Entry(path, depth, lst, st, f, self._root, dangling)
        rec = ent.rec
        isdir = stat.S_ISDIR(rec.st_mode)
        if isdir and stat.S_ISLNK(lst.st_mode):
            if (rec.st_dev, rec.st_ino) in ancestors:
                # a followed link that closes a directory cycle: diagnosed, not descended
                at_max = self.maxdepth is not None and depth >= self.maxdepth
                self.errors.append(("loop", path, at_max))
                self.optional.add(path)
                return
        in_range = depth >= self.mindepth and (self.maxdepth is None or depth <= self.maxdepth)
        may_descend = isdir and (self.maxdepth is None or depth < self.maxdepth)
        if self.xdev and depth > 0 and isdir and rec.st_dev != self._root_dev:
            may_descend = False
        pruned = False
        if in_range and not self.depth_first:
            pruned = bool(self._on_visit(ent))
        if may_descend and not pruned:
            try:
                if path in self.deny:
                    raise PermissionError(13, "denied", path)
                names = os.listdir(ap)
            except OSError as e:
                self.errors.append(("unreadable", path, False))
                if not self.unreadable_required:
                    self.optional.add(path)
                names = None
            if names is not None:
                if self.sorted:
                    names.sort(key=os.fsencode)
                anc = ancestors + [(rec.st_dev, rec.st_ino)]
                for n in names:
                    self._visit(join(path, n), depth + 1, anc)
        if in_range and self.depth_first:
            self._on_visit(ent)


def walk_list(roots, mode="P", mindepth=0, maxdepth=None, depth_first=False, sorted_=True, cwd=None, prune=None):
    """Convenience: full visit list over several roots. Returns (entries, walkobj)."""
    w = Walk(mode, mindepth, maxdepth, depth_first, sorted_, cwd)
    out = []

    def on_visit(e):
        out.append(e)
        return prune(e) if prune else False

    for r in roots:
        w.run(r, on_visit)
    return out, w
