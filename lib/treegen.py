"""Build file trees from specs; snapshot directories for before/after comparison."""
import hashlib
import os
import socket
import stat


class Node:
    __slots__ = ("path", "kind", "target", "size", "mode", "uid", "gid", "atime_ns", "mtime_ns", "link_to", "content")

    def __init__(self, path, kind, target=None, size=0, mode=None, uid=None, gid=None,
                 atime_ns=None, mtime_ns=None, link_to=None, content=None):
        self.path, self.kind, self.target, self.size, self.mode = path, kind, target, size, mode
        self.uid, self.gid, self.atime_ns, self.mtime_ns, self.link_to = uid, gid, atime_ns, mtime_ns, link_to
        self.content = content

    def to_json(self):
        d = {"path": self.path, "kind": self.kind}
        for k in ("target", "size", "mode", "uid", "gid", "atime_ns", "mtime_ns", "link_to"):
            v = getattr(self, k)
            if v not in (None, 0) or (k == "size" and self.kind == "f"):
                d[k] = v
        return d


def build(base, nodes):
    """Create nodes (paths relative to base) in order. Kinds: d f l p s c b h(hard link to link_to)."""
    later = []
    for n in nodes:
        p = os.path.join(base, n.path)
        if n.kind == "d":
            os.makedirs(p, exist_ok=True)
        elif n.kind == "f":
            with open(p, "wb") as f:
                if n.content is not None:
                    f.write(n.content)
                elif n.size:
                    if n.size <= 65536:
                        f.write((b"x" * 251 + b"\n") * (n.size // 252) + b"y" * (n.size % 252))
                    else:
                        f.truncate(n.size)
        elif n.kind == "l":
            os.symlink(n.target, p)
        elif n.kind == "p":
            os.mkfifo(p)
        elif n.kind == "s":
            s = socket.socket(socket.AF_UNIX)
            # bind() limits path length; bind via a short relative name
            cwd = os.getcwd()
            try:
                os.chdir(os.path.dirname(p))
                s.bind(os.path.basename(p))
            finally:
                os.chdir(cwd)
                s.close()
        elif n.kind == "c":
            os.mknod(p, 0o600 | stat.S_IFCHR, os.makedev(1, 3))
        elif n.kind == "b":
            os.mknod(p, 0o600 | stat.S_IFBLK, os.makedev(7, 0))
        elif n.kind == "h":
            os.link(os.path.join(base, n.link_to), p)
        else:
            raise ValueError(n.kind)
        if n.kind != "l":
            if n.uid is not None or n.gid is not None:
                os.chown(p, n.uid if n.uid is not None else -1, n.gid if n.gid is not None else -1)
            if n.mode is not None:
                later.append((p, n.mode, n.kind))
        else:
            if n.uid is not None or n.gid is not None:
                os.lchown(p, n.uid if n.uid is not None else -1, n.gid if n.gid is not None else -1)
        if n.atime_ns is not None or n.mtime_ns is not None:
            st = os.lstat(p)
            os.utime(p, ns=(n.atime_ns if n.atime_ns is not None else st.st_atime_ns,
                            n.mtime_ns if n.mtime_ns is not None else st.st_mtime_ns), follow_symlinks=False)
    # modes last and deepest first (a directory may become unwritable)
    for p, m, k in sorted(later, key=lambda x: -x[0].count("/")):
        os.chmod(p, m)


def snapshot(base, hash_content=True):
    """relpath -> tuple describing the entry (type, perm bits, size, link target, content hash, nlink for files)."""
    snap = {}
    base = base.rstrip("/")

    def visit(p, rel):
        try:
            st = os.lstat(p)
        except OSError as e:
            snap[rel] = ("ERR", e.errno)
            return
        t = stat.S_IFMT(st.st_mode)
        tgt = None
        h = None
        if stat.S_ISLNK(st.st_mode):
            tgt = os.readlink(p)
        elif stat.S_ISREG(st.st_mode) and hash_content and st.st_size <= (1 << 22):
            try:
                with open(p, "rb") as f:
                    h = hashlib.sha1(f.read()).hexdigest()[:16]
            except OSError:
                h = "unreadable"
        snap[rel] = (t, stat.S_IMODE(st.st_mode), st.st_size if not stat.S_ISDIR(st.st_mode) else 0, tgt, h,
                     st.st_uid, st.st_gid)
        if stat.S_ISDIR(st.st_mode):
            try:
                names = sorted(os.listdir(p))
            except OSError:
                snap[rel + "/"] = ("UNREADABLE",)
                return
            for n in names:
                visit(os.path.join(p, n), (rel + "/" + n) if rel else n)

    visit(base, "")
    return snap


# ------------------------------------------------------------------------------------------
# random trees

PLAIN_NAMES = ["a", "b", "c", "d", "e", "f", "g", "aa", "ab", "ba", "x.txt", "y.txt", "z.c", "A", "B", "Ab", "_u", "-v",
               "0", "1", "10", "2", ".h", ".hid", "a b", "Z"]


def random_tree(rng, root="r", max_nodes=30, max_depth=4, names=None, p_link=0.2, p_dir=0.35,
                link_kinds=("file", "dir", "dangling", "ancestor", "outside", "self", "chain"),
                outside="out", sizes=(0, 0, 1, 2, 511, 512, 513, 1024, 1025, 5000), special=False):
    """Returns list of Nodes: a directory `root` with random content, plus `outside` directory used as a
    target of some links. All paths relative to the sandbox."""
    names = names or PLAIN_NAMES
    nodes = [Node(root, "d")]
    dirs = [(root, 0)]
    files = []
    used = {root}
    have_outside = False
    n = rng.randint(1, max_nodes)
    for _ in range(n):
        parent, d = rng.choice(dirs)
        nm = rng.choice(names)
        p = parent + "/" + nm
        if p in used:
            continue
        used.add(p)
        r = rng.random()
        if r < p_dir and d + 1 < max_depth:
            nodes.append(Node(p, "d"))
            dirs.append((p, d + 1))
        elif r < p_dir + p_link and link_kinds:
            k = rng.choice(link_kinds)
            if k == "file" and files:
                tgt = rng.choice(files)
                nodes.append(Node(p, "l", target=os.path.relpath(tgt, os.path.dirname(p))))
            elif k == "dir" and len(dirs) > 1:
                tgt = rng.choice(dirs)[0]
                if p.startswith(tgt + "/"):
                    # would be an ancestor link; keep it labelled as such
                    pass
                nodes.append(Node(p, "l", target=os.path.relpath(tgt, os.path.dirname(p))))
            elif k == "dangling":
                nodes.append(Node(p, "l", target=rng.choice(["nowhere", "../missing", "a/b/c", "/nonexistent/x"])))
            elif k == "ancestor":
                anc = parent
                for _ in range(rng.randint(0, 2)):
                    if "/" in anc:
                        anc = anc.rsplit("/", 1)[0]
                nodes.append(Node(p, "l", target=os.path.relpath(anc, os.path.dirname(p))))
            elif k == "outside":
                if not have_outside:
                    have_outside = True
                    nodes.insert(0, Node(outside, "d"))
                    nodes.insert(1, Node(outside + "/of", "f", size=3))
                    nodes.insert(2, Node(outside + "/od", "d"))
                    nodes.insert(3, Node(outside + "/od/og", "f", size=1))
                tgt = rng.choice([outside, outside + "/of", outside + "/od"])
                nodes.append(Node(p, "l", target=os.path.relpath(tgt, os.path.dirname(p))))
            elif k == "self":
                nodes.append(Node(p, "l", target=nm))
            elif k == "chain" and files:
                tgt = rng.choice(files)
                p2 = p + "2"
                if p2 not in used:
                    used.add(p2)
                    nodes.append(Node(p2, "l", target=os.path.relpath(tgt, os.path.dirname(p))))
                    nodes.append(Node(p, "l", target=os.path.basename(p2)))
                else:
                    nodes.append(Node(p, "f", size=rng.choice(sizes)))
                    files.append(p)
            else:
                nodes.append(Node(p, "f", size=rng.choice(sizes)))
                files.append(p)
        elif special and r > 0.93:
            nodes.append(Node(p, rng.choice(["p", "s"])))
        else:
            nodes.append(Node(p, "f", size=rng.choice(sizes)))
            files.append(p)
    return nodes


HOSTILE_PIECES = [" ", "  ", "\t", "\n", "'", '"', "\\", "{}", "$(x)", "`y`", "*", "?", "[", "]", "[a]", "-", "--", "-n",
                  "-print", ";", "+", "&", "|", ">", "<", "~", "#", "!", "%", "%p", "é", "ü", "日本", "🙂", "\x01", "\x7f",
                  "\r", "a", "b", "Z", "0", ".", "..x", ",", "(", ")", "=", ":"]


def hostile_name(rng, maxlen=24):
    k = rng.random()
    if k < 0.08:
        return rng.choice([" ", "  ", "\n", "-", "--", "-print", "{}", "'", '"', "\\", "*", "-n", "\t", " a", "a ", "-0"])
    if k < 0.10:
        # long name (<=255 bytes)
        ch = rng.choice(["a", "é", "🙂", " "])
        n = 255 // len(ch.encode())
        return ch * n
    parts = []
    for _ in range(rng.randint(1, 5)):
        parts.append(rng.choice(HOSTILE_PIECES))
    s = "".join(parts)
    if s in (".", ".."):
        s += "x"
    while len(s.encode()) > maxlen * 4:
        s = s[:-1]
    return s.replace("/", "_").replace("\0", "_") or "x"


def hostile_classes(name):
    c = set()
    if name.strip(" ") == "" and name:
        c.add("only-blanks")
    if name.startswith(" ") or name.endswith(" "):
        c.add("edge-blank")
    if " " in name or "\t" in name:
        c.add("blank")
    if name.startswith("--"):
        c.add("double-dash")
    elif name.startswith("-"):
        c.add("leading-dash")
    if "\n" in name:
        c.add("newline")
    if "'" in name or '"' in name:
        c.add("quote")
    if "\\" in name:
        c.add("backslash")
    if "{}" in name:
        c.add("braces")
    if "$(" in name or "`" in name:
        c.add("cmdsubst")
    if any(x in name for x in "*?["):
        c.add("glob")
    if any(ord(x) < 32 or ord(x) == 127 for x in name):
        c.add("control")
    if any(0xDC80 <= ord(x) <= 0xDCFF for x in name):
        c.add("not-utf8")
    if any(ord(x) > 0xFFFF for x in name):
        c.add("4byte")
    elif any(ord(x) > 127 for x in name):
        c.add("multibyte")
    if len(name.encode("utf-8", "surrogateescape")) >= 200:
        c.add("long")
    return c


def hostile_tree(rng, root="r", max_nodes=25, max_depth=4):
    nodes = [Node(root, "d")]
    dirs = [(root, 0)]
    used = {root}
    for _ in range(rng.randint(3, max_nodes)):
        parent, d = rng.choice(dirs)
        nm = hostile_name(rng)
        p = parent + "/" + nm
        if p in used or len(p.encode()) > 3000:
            continue
        used.add(p)
        if rng.random() < 0.3 and d + 1 < max_depth:
            nodes.append(Node(p, "d"))
            dirs.append((p, d + 1))
        else:
            nodes.append(Node(p, "f", size=rng.choice([0, 1, 5])))
    return nodes
