"""C03 — visit order (pre/post-order), -prune cuts exactly one subtree, -sorted byte order.

Monitor: exact visit *sequence* printed by `find r -sorted [-depth] EXPR` vs the reference walk with the prune
predicate evaluated by the reference evaluator; plus the oracle-free relation "-depth: with and without -prune equal"."""
import os

import common
import c01
import refeval
import refwalk
import treegen
from common import Stats

NAMES = ["B", "a", "_", "-x", "0", "é", "Z", "b", "A", "aa", "a b", "~", "ä", "1", "10", "9", "c", "C", ".d", "d"]


def gen_tree(rng, max_nodes):
    # (links to directories matter: -prune evaluated on such a link must not cut anything under -P)
    return treegen.random_tree(rng, "r", max_nodes=max_nodes, max_depth=5, names=NAMES, p_link=rng.choice([0.05, 0.05, 0.25]), p_dir=0.45,
                               link_kinds=("file", "dir", "dir", "dangling"))


def sel_test(rng, dirs, files):
    """A test selecting some directories (or files, for the prune-on-non-directory shape)."""
    k = rng.random()
    links = [f for f in files if f.startswith("L:")]
    files = [f for f in files if not f.startswith("L:")]
    if k < 0.14 and links:
        # -prune evaluated on a symbolic link (possibly to a directory): nothing may be cut under -P
        return rng.choice([["-name", rng.choice(links)[2:].rsplit("/", 1)[-1]], ["-type", "l"]]), "link"
    if k < 0.45 and dirs:
        d = rng.choice(dirs)
        return ["-name", d.rsplit("/", 1)[-1]], "name"
    if k < 0.6 and dirs:
        d = rng.choice(dirs)
        return ["-path", d.replace("*", "?")], "path"
    if k < 0.7 and dirs:
        d = rng.choice(dirs).rsplit("/", 1)[-1]
        if d.isascii():
            return ["-iname", d.swapcase()], "iname"
        return ["-name", d], "name"
    if k < 0.8 and dirs:
        d = rng.choice(dirs)
        if all(c.isalnum() or c in "/_ -" for c in d) and d.isascii():
            return ["-regex", d + (".*" if rng.random() < 0.3 else "")], "regex"
        return ["-path", d], "path"
    if k < 0.9:
        return ["-type", "d", "-name", rng.choice(["[0-9]*", "*a*", "[a-c]*", "*", "[!a-z]*"])], "glob"
    if files:
        return ["-name", rng.choice(files).rsplit("/", 1)[-1]], "file"
    return ["-name", "a"], "name"


def gen_expr(rng, dirs, files):
    t, tk = sel_test(rng, dirs, files)
    shape = rng.choice(["T-prune-o-print", "(T-prune),print", "print,T-prune", "!T-o-prune", "two-prunes", "prune-only",
                        "T-prune-o-printf", "nested", "T-prune-failing-fprint", "T-prune-o-failing-execdir-plus",
                        "not(T-prune)", "(T-prune-o-true)-false-test", "T-prune,false-test-print"])
    if shape == "T-prune-o-print":
        e = t + ["-prune", "-o", "-print"]
    elif shape == "(T-prune),print":
        e = ["("] + t + ["-prune", ")", ",", "-print"]
    elif shape == "print,T-prune":
        e = ["-print", ","] + t + ["-prune"]
    elif shape == "!T-o-prune":
        e = ["!", "("] + t + [")", "-o", "-prune"]
    elif shape == "two-prunes":
        t2, _ = sel_test(rng, dirs, files)
        e = t + ["-prune", "-o"] + t2 + ["-prune", "-o", "-print"]
    elif shape == "prune-only":
        e = t + ["-prune"]
    # -prune marks the directory as a side effect of being evaluated - whether or not the whole expression ends up true for it
    elif shape == "not(T-prune)":
        e = ["!", "("] + t + ["-prune", ")"]
    elif shape == "(T-prune-o-true)-false-test":
        e = ["("] + t + ["-prune", "-o", "-true", ")", rng.choice(["-type", "-xtype"]), "f"]
    elif shape == "T-prune,false-test-print":
        e = t + ["-prune", ",", "-type", "f", "-print"]
    elif shape == "T-prune-failing-fprint":
        # the entry -prune fires on also records a failure (output that cannot be written): still exactly that subtree is cut
        e = t + ["-prune", "-fprint", "/dev/full", "-o", "-print"]
    elif shape == "T-prune-o-failing-execdir-plus":
        # a failing '{} +' batch is reported while the walk moves on to the next entry - possibly the one -prune fires on
        e = t + ["-prune", "-o", "(", "-type", "f", "-execdir", "/bin/false", "{}", "+", ",", "-print", ")"]
    elif shape == "T-prune-o-printf":
        e = t + ["-prune", "-printf", "P:%p\\n", "-o", "-printf", "V:%p\\n"]
    else:
        e = ["(", "-type", "d", "-a", "("] + t + ["-prune", ")", ")", "-o", "(", "-print", ")"]
    pre = []
    df = None
    r = rng.random()
    if r < 0.3:
        pre.append(rng.choice(["-depth", "-d"]))
        df = "depth"
    elif r < 0.4:
        e = e + [",", "-false", "-delete"] if shape != "prune-only" else e + ["-false", "-delete"]
        df = "delete"
    if rng.random() < 0.25:
        pre += ["-maxdepth", str(rng.randint(0, 4))]
    if rng.random() < 0.2:
        pre += ["-mindepth", str(rng.randint(0, 3))]
    return ["-sorted"] + pre + e, shape, df, tk


def no_prune_variant(toks):
    return [("-true" if t == "-prune" else t) for t in toks]


def worker(job):
    k, ntrees, nexpr, seed, max_nodes, nbinary = job
    st = Stats()
    rng = common.rng_for(seed, "C03", k)
    base = common.mkscratch("C03w%d" % k)
    try:
        for t in range(ntrees):
            sb = os.path.join(base, "t%d" % t)
            os.makedirs(sb)
            nodes = gen_tree(rng, rng.choice([6, 15, max_nodes]))
            treegen.build(sb, nodes)
            dirs = [n.path for n in nodes if n.kind == "d"]
            files = [n.path for n in nodes if n.kind == "f"] + ["L:" + n.path for n in nodes if n.kind == "l"]
            before = treegen.snapshot(os.path.join(sb, "r"))
            cases = []
            for i in range(nexpr):
                toks, shape, df, tk = gen_expr(rng, dirs, files)
                cid = "%d_%d_%d" % (k, t, i)
                # follow mode: under -L (and -H for the starting point) a link to a directory IS entered, so -prune on it cuts
                mode = rng.choice(["P", "P", "P", "L", "L", "H"])
                cases.append({"id": cid, "toks": toks, "files": [], "stratum": shape, "has_plus": False, "df": df, "tk": tk, "mode": mode,
                              "lead": [] if mode == "P" and rng.random() < 0.7 else ["-" + mode]})
            lines = []
            for c in cases:
                lines.append(common.find_case(c["id"], ["find"] + c["lead"] + ["r"] + c["toks"]))
                if c["df"]:
                    lines.append(common.find_case(c["id"] + "np", ["find"] + c["lead"] + ["r"] + no_prune_variant(c["toks"])))
            raw = common.run_vh("find", lines, base, cwd=sb)
            for c in cases:
                r = common.FindResult(raw[c["id"]])
                if r.special or r.panic:
                    st.violate("panic-or-hang", None, {"args": c["toks"], "what": r.special, "msg": r.panic}, {"case": c})
                    continue
                judge(st, c, sb, r.out, r.code, "in-process", dirs)
                if c["df"]:
                    r2 = common.FindResult(raw[c["id"] + "np"])
                    st.inc("metamorphic_depth_pairs")
                    if r2.out != r.out:
                        st.violate("prune-changes-depth-first-walk", None,
                                   {"args": ["find", "r"] + c["toks"], "with_prune": r.out[:500], "without_prune": r2.out[:500]},
                                   {"case": c})
            for c in cases[:nbinary]:
                rc, out, err, to = common.run_cmd([common.FIND] + c["lead"] + ["r"] + c["toks"], cwd=sb, env=common.clean_env(), timeout=60)
                st.inc("binary_runs")
                judge(st, c, sb, out, rc, "binary", dirs)
            st.inc("trees")
            if treegen.snapshot(os.path.join(sb, "r")) != before:
                st.violate("tree-modified", None, {"tree": sb}, None)
            common.force_rmtree(sb)
    finally:
        common.force_rmtree(base)
    return st


def judge(st, c, cwd, out, code, vehicle, dirs):
    env, opts, ast, nvis, w = c01.reference(c, cwd, c.get("roots", ("r",)))
    exp = refeval.expected_bytes(env.sinks.get("stdout", []))
    if w.out_of_domain or w.errors:
        st.inc("out_of_domain(link loop under a follow mode)")
        return
    st.inc("evaluations")
    st.inc("mode:" + c.get("mode", "P"))
    st.inc("shape:" + c["stratum"])
    st.inc("test:" + c["tk"])
    st.inc("entries_in_sequences", exp.count(b"\n"))
    st.add("distinct", (tuple(c["toks"]), exp))
    if opts["depth_first"]:
        st.inc("runs_depth_first(" + str(c["df"]) + ")")
    # which directories were pruned in the reference run, and where among their siblings
    if not opts["depth_first"]:
        full, _ = __import__("refwalk").walk_list(list(c.get("roots", ("r",))), c.get("mode", "P"), opts["mindepth"], opts["maxdepth"], False, True, cwd)
        visited = set(l for l in exp.decode("utf-8", "replace").replace("P:", "").replace("V:", "").split("\n") if l)
        allp = [e.path for e in full]
        cut = [p for p in allp if p not in visited]
        if cut:
            st.inc("runs_with_subtree_cut")
            if c.get("mode", "P") != "P" and c["tk"] == "link":
                st.inc("runs_with_subtree_cut_below_a_followed_link")
            st.inc("entries_cut", len(cut))
    want_code = 0
    if c["stratum"] == "T-prune-failing-fprint" and env.sinks.get("/dev/full"):
        want_code = 1
        st.inc("runs_with_failing_action_on_pruned_entry")
    if c["stratum"] == "T-prune-o-failing-execdir-plus" and env.plus:
        want_code = 1
        st.inc("runs_with_failing_execdir_plus_batches")
    if out != exp or code != want_code:
        st.violate("sequence-differs", None,
                   {"args": ["find"] + c.get("lead", []) + list(c.get("roots", ("r",))) + c["toks"], "expected": exp[:700], "observed": out[:700], "exit": code, "expected_exit": want_code,
                    "vehicle": vehicle}, {"case": c})
    if st.c["evaluations"] % 151 == 1:
        st.sample({"args": ["find", "r"] + c["toks"], "sequence": out[:160]})


def xdev_worker(job):
    """-xdev / -mount: a directory that is a mount point is evaluated but not descended. -prune evaluated on such a directory
    (which the walk would not have entered anyway) must still leave its siblings and every other subtree in the walk. Trees with
    one or two tmpfs mounts inside the sandbox; skipped (and counted) where mounting is not permitted."""
    import subprocess
    k, ntrees, seed = job
    st = Stats()
    rng = common.rng_for(seed, "C03x", k)
    base = common.mkscratch("C03x%d" % k)
    mounted = []
    try:
        for t in range(ntrees):
            sb = os.path.join(base, "t%d" % t)
            os.makedirs(sb)
            nodes = gen_tree(rng, rng.choice([8, 16]))
            treegen.build(sb, nodes)
            dirs = [n.path for n in nodes if n.kind == "d"]
            mps = []
            for i in range(rng.choice([1, 1, 2])):
                parent = rng.choice(dirs)
                mp = parent + "/" + rng.choice(["m", "B", "mnt", "0", "zz", "a"]) + str(i)
                os.mkdir(os.path.join(sb, mp))
                pr = subprocess.run(["mount", "-t", "tmpfs", "-o", "size=256k", "none", os.path.join(sb, mp)], capture_output=True)
                if pr.returncode != 0:
                    st.inc("mount_not_permitted")
                    os.rmdir(os.path.join(sb, mp))
                    continue
                mounted.append(os.path.join(sb, mp))
                mps.append(mp)
                os.makedirs(os.path.join(sb, mp, "inner", "deep"))
                os.mkdir(os.path.join(sb, mp, "zdir"))
                for nm in ("f", "inner/g", "inner/deep/h", "zdir/y", "~"):
                    open(os.path.join(sb, mp, nm), "w").close()
                # a symbolic link on the sandbox's file system that leads to the root of the mounted one: as a followed starting
                # point (-H / -L) its file system - the target's - is what -xdev confines the walk to
                os.symlink(mp, os.path.join(sb, "lm%d" % i))
            if not mps:
                common.force_rmtree(sb)
                continue
            st.inc("trees_with_mount_points")
            files = [n.path for n in nodes if n.kind == "f"] + ["L:" + n.path for n in nodes if n.kind == "l"]
            cases = []
            for i in range(10):
                toks, shape, df, tk = gen_expr(rng, mps * 3 + dirs, files)
                xd = rng.random() < 0.75
                if xd:
                    toks = toks[:1] + [rng.choice(["-xdev", "-xdev", "-mount"])] + toks[1:]
                cases.append({"id": "x%d_%d_%d" % (k, t, i), "toks": toks, "files": [], "stratum": shape, "has_plus": False, "df": df, "tk": tk,
                              "mode": "P", "lead": [], "xdev": xd})
            for i in range(6):
                lm = "lm%d" % rng.randrange(len(mps))
                if not os.path.islink(os.path.join(sb, lm)):
                    continue
                inner = [lm + "/inner", lm + "/inner/deep", lm + "/zdir"]
                toks, shape, df, tk = gen_expr(rng, inner * 2, [lm + "/f"])
                toks = toks[:1] + [rng.choice(["-xdev", "-mount"])] + toks[1:]
                # (-H with a linked starting point in depth-first order is the known finding of this property; use -L there)
                mode = "L" if df else rng.choice(["H", "L"])
                cases.append({"id": "xl%d_%d_%d" % (k, t, i), "toks": toks, "files": [], "stratum": shape, "has_plus": False, "df": df, "tk": tk,
                              "mode": mode, "lead": ["-" + mode], "xdev": True, "roots": [lm]})
                st.inc("runs_from_a_followed_link_onto_another_file_system")
            res = common.run_find_inproc([(c["id"], ["find"] + c["lead"] + list(c.get("roots", ["r"])) + c["toks"]) for c in cases], base, sb)
            for c in cases:
                r = res[c["id"]]
                if r.special or r.panic:
                    st.violate("panic-or-hang", None, {"args": c["toks"], "what": r.special, "msg": r.panic}, {"case": c})
                    continue
                st.inc("runs_over_trees_with_mount_points")
                if c["xdev"]:
                    st.inc("runs_with_xdev")
                judge(st, c, sb, r.out, r.code, "in-process", dirs)
            for mp in mps:
                subprocess.run(["umount", "-l", os.path.join(sb, mp)], capture_output=True)
                mounted.remove(os.path.join(sb, mp))
            common.force_rmtree(sb)
    finally:
        for m in reversed(mounted):
            subprocess.run(["umount", "-l", m], capture_output=True)
        common.force_rmtree(base)
    return st


def removing_prune_worker(job):
    """-prune on a directory that an action written after it removes (find ... -name cache -prune -exec rm -rf {} ;): nothing below
    the pruned directory is evaluated - it is gone AND cut off - every sibling and every other subtree still is, in order, and the
    run ends cleanly. With and without -xdev/-mount (on one file system they change nothing), with and without -sorted."""
    k, nruns, seed = job
    st = Stats()
    rng = common.rng_for(seed, "C03rm", k)
    base = common.mkscratch("C03r%d" % k)
    try:
        for t in range(nruns):
            sb = os.path.join(base, "t%d" % t)
            os.makedirs(sb)
            nodes = gen_tree(rng, rng.choice([10, 20, 30]))
            treegen.build(sb, nodes)
            cands = [n.path for n in nodes if n.kind == "d" and n.path != "r" and any(m.path.startswith(n.path + "/") for m in nodes)
                     and not any(0xDC80 <= ord(ch) <= 0xDCFF for ch in n.path) and not any(ch in n.path for ch in "*?[\\\n")]
            if not cands:
                common.force_rmtree(sb)
                continue
            victim = rng.choice(cands)
            ents, w = refwalk.walk_list(["r"], "P", 0, None, False, True, sb)
            want = [e.path for e in ents if e.path != victim and not e.path.startswith(victim + "/")]
            opt = rng.choice([[], ["-xdev"], ["-xdev"], ["-mount"]])
            srt = rng.random() < 0.7
            rm = rng.choice([["-exec", "rm", "-rf", "{}", ";"], ["-execdir", "rm", "-rf", "{}", ";"], ["-exec", "rm", "-rf", "{}", ";", "-true"]])
            args = ["r"] + opt + (["-sorted"] if srt else []) + ["(", "-path", victim, "-prune"] + rm + [")", "-o", "-print0"]
            rc, out, err, to = common.run_cmd([common.FIND] + args, cwd=sb, env=common.clean_env(), timeout=60)
            got = [os.fsdecode(x) for x in out.split(b"\0")[:-1]]
            st.inc("evaluations")
            st.inc("runs_in_which_the_pruned_directory_is_removed_by_a_later_action")
            if opt:
                st.inc("runs_with_xdev")
            st.add("distinct", (tuple(args), tuple(want)))
            rp = {"tree": [n.to_json() for n in nodes], "args": ["find"] + args}
            problems = []
            if to or rc in (101, 134, -6, -11):
                problems.append("crashed or hung: %r %r" % (rc, err[-200:]))
            else:
                if (got != want) if srt else (sorted(got) != sorted(want)):
                    problems.append("evaluated %r, expected %r" % ([g for g in got if g not in want][:4] or got[:6], want[:6]))
                if rc != 0 or err.strip():
                    problems.append("exit status %r, stderr %r" % (rc, err[-200:]))
                if os.path.lexists(os.path.join(sb, victim)):
                    problems.append("%r still exists" % victim)
            if problems:
                st.violate("sequence-differs", None, {"args": ["find"] + args, "pruned_and_removed": victim, "problems": problems}, rp)
            common.force_rmtree(sb)
    finally:
        common.force_rmtree(base)
    return st


def order_worker(job):
    """Follow modes: the statement's ancestor/descendant order must hold for whatever is visited (oracle-free invariant)."""
    k, ntrees, seed = job
    st = Stats()
    rng = common.rng_for(seed, "C03o", k)
    base = common.mkscratch("C03o%d" % k)
    try:
        for t in range(ntrees):
            sb = os.path.join(base, "t%d" % t)
            os.makedirs(sb)
            nodes = treegen.random_tree(rng, "r", max_nodes=rng.choice([8, 20, 40]), max_depth=5, names=NAMES, p_link=0.25, p_dir=0.4,
                                        link_kinds=("file", "dir", "dangling", "outside", "ancestor"))
            nodes.append(treegen.Node("lroot", "l", target="r"))
            treegen.build(sb, nodes)
            cases = []
            for i in range(8):
                mode = rng.choice(["-P", "-H", "-L"])
                root = rng.choice(["r", "lroot"])
                df = rng.random() < 0.6
                extra = rng.choice([[], [], ["-mindepth", "1"], ["-maxdepth", "2"]])
                args = ["find", mode, root, "-sorted"] + (["-depth"] if df else []) + extra + ["-print0"]
                cases.append(("%d_%d_%d" % (k, t, i), args, df, mode, root))
            res = common.run_find_inproc([(c[0], c[1]) for c in cases], base, sb)
            for cid, args, df, mode, root in cases:
                r = res[cid]
                if r.special or r.panic:
                    st.violate("panic-or-hang", None, {"args": args, "msg": r.panic}, {"args": args})
                    continue
                paths = [p.decode("utf-8", "surrogateescape") for p in r.out.split(b"\0")[:-1]]
                st.inc("evaluations")
                st.inc("order_invariant_runs")
                st.inc("order_runs(%s,%s,%s)" % (mode, "symlinked-root" if root == "lroot" else "dir-root", "depth" if df else "default"))
                st.add("distinct", (tuple(args), tuple(paths)))
                index = {}
                for i, p in enumerate(paths):
                    index.setdefault(p, i)
                bad = None
                for i, p in enumerate(paths):
                    parent = p.rsplit("/", 1)[0] if "/" in p else None
                    while parent:
                        if parent in index:
                            if not df and index[parent] > i:
                                bad = "directory %r printed after %r beneath it" % (parent, p)
                            if df and index[parent] < i:
                                bad = "directory %r printed before %r beneath it (with -depth)" % (parent, p)
                        parent = parent.rsplit("/", 1)[0] if "/" in parent else None
                    if bad:
                        break
                if bad:
                    st.violate("ancestor-order", None, {"args": args, "problem": bad, "sequence": paths[:30]}, {"args": args, "tree": [n.to_json() for n in nodes]})
                    continue
                # exact sequence in the follow modes too, wherever the reference walk is well defined (no loop, no error)
                import refwalk
                mind = int(args[args.index("-mindepth") + 1]) if "-mindepth" in args else 0
                maxd = int(args[args.index("-maxdepth") + 1]) if "-maxdepth" in args else None
                ents, w = refwalk.walk_list([root], mode[1], mind, maxd, df, True, sb)
                if w.out_of_domain or any(er[0] not in ("loop",) for er in w.errors):
                    st.inc("follow_mode_sequences_not_judged(error other than a link loop)")
                    continue
                exp = [e.path for e in ents]
                if w.optional:
                    # a link that closes a directory cycle may or may not be listed itself; everything else — in particular
                    # its later siblings — must still be visited, in order
                    st.inc("follow_mode_sequences_with_link_loop")
                    exp = [p for p in exp if p not in w.optional]
                    paths = [p for p in paths if p not in w.optional]
                st.inc("follow_mode_sequences_compared")
                if paths != exp:
                    sig = None
                    if mode == "-H" and root == "lroot" and df and sorted(paths) == sorted(exp):
                        # known mechanism: WalkDir does not defer a starting point that is a followed symbolic link, so in
                        # contents-first order every directory is released one level late (after its later siblings). The
                        # signature: same entries, non-directories in the expected relative order, and every directory
                        # still after everything beneath it (already checked above).
                        isdir = {e.path: e.is_dir for e in ents}
                        if [p for p in paths if not isdir[p]] == [p for p in exp if not isdir[p]]:
                            sig = "H-symlinked-root-depth-directory-released-late"
                    st.violate("sequence-differs", sig, {"args": args, "expected": exp[:25], "observed": paths[:25]},
                               {"args": args, "tree": [n.to_json() for n in nodes]})
            common.force_rmtree(sb)
    finally:
        common.force_rmtree(base)
    return st


RAW_NAMES = [b"\xe8re", b"\xe9cole", b"caf\xe8s", b"caf\xe9", b"\xff", b"\xfea", b"\x80", b"a\x80b", b"a\xffb", b"z\xc3", b"\xc3\xa9", b"\xc3\xa8x",
             b"B", b"a", b"caf", b"cafz", b"e", b"f", b"\xf0\x9f", b"\xa0", b"\x85q"]


def lossy(b):
    return b.decode("utf-8", "replace").encode("utf-8")


def bytes_order_worker(job):
    """-sorted means byte-wise name order for *every* name, also one that is not valid UTF-8. Such names are printed lossily
    (U+FFFD), so the expected sequence is the byte-ordered reference walk with each path passed through the same lossy
    conversion; only trees whose lossy paths stay pairwise distinct are judged."""
    import refwalk
    k, ntrees, seed = job
    st = Stats()
    rng = common.rng_for(seed, "C03b", k)
    base = common.mkscratch("C03b%d" % k)
    try:
        for t in range(ntrees):
            sb = os.path.join(base, "t%d" % t)
            os.makedirs(os.path.join(sb, "r"))
            dirs = [b"r"]
            made = set()
            for _ in range(rng.randint(4, 14)):
                parent = rng.choice(dirs)
                nm = rng.choice(RAW_NAMES)
                p = parent + b"/" + nm
                if p in made or p.count(b"/") > 3:
                    continue
                made.add(p)
                if rng.random() < 0.4:
                    os.mkdir(os.path.join(os.fsencode(sb), p))
                    dirs.append(p)
                else:
                    open(os.path.join(os.fsencode(sb), p), "wb").close()
            for df in (False, True):
                ents, w = refwalk.walk_list(["r"], "P", 0, None, df, True, sb)
                exp_raw = [os.fsencode(e.path) for e in ents]
                exp = [lossy(x) for x in exp_raw]
                if len(set(exp)) != len(exp):
                    st.inc("out_of_domain_lossy_collision")
                    continue
                args = [common.FIND, "r", "-sorted"] + (["-depth"] if df else []) + ["-print0"]
                rc, out, err, to = common.run_cmd(args, cwd=sb, env=common.clean_env(), timeout=60)
                st.inc("evaluations")
                st.inc("non_utf8_sorted_runs")
                st.add("distinct", tuple(exp_raw))
                got = out.split(b"\0")[:-1]
                if to or rc != 0 or got != exp:
                    st.violate("sequence-differs", None, {"args": args[1:], "exit": rc, "expected": exp[:12], "observed": got[:12],
                                                          "note": "names are not valid UTF-8; printed lossily, ordered byte-wise"},
                               {"args": args[1:], "names": sorted(made)})
            common.force_rmtree(sb)
    finally:
        common.force_rmtree(base)
    return st


def run(ctx):
    ctx.rule = ("trees with 2-5 levels and sibling names separating byte order from locale order; prune sets chosen by "
                "-name/-path/-iname/-regex/glob tests in 8 expression shapes, with/without -depth, dead -delete, depth bounds; "
                "exact sequence compared; distinct = (argv, expected sequence)")
    ctx.assumptions = ["reference walk/evaluator (lib/refwalk.py, lib/refeval.py)", "exact sequences under -P; under -H/-L (incl. a symlinked starting point) only the statement's ancestor/descendant order invariant is judged"]
    c01.self_check(ctx.scratch())
    nw = common.NCPU
    ntrees = ctx.scale(320, 48000)
    jobs = [(k, ntrees // nw, ctx.scale(10, 14), ctx.seed, ctx.scale(30, 80), 1) for k in range(nw)]
    ctx.pmap(worker, jobs)
    ctx.pmap(order_worker, [(k, ctx.scale(10, 1500), ctx.seed) for k in range(nw)])
    import deep
    ctx.pmap(deep.deep_worker, [("order", k, 1 if ctx.quick else 6, ctx.seed) for k in range(common.NCPU)])
    ctx.require("runs_over_a_tree_deeper_than_the_open_files_limit", 8)
    ctx.pmap(xdev_worker, [(k, ctx.scale(3, 60), ctx.seed) for k in range(nw)])
    if ctx.stats.c.get("mount_not_permitted") and not ctx.stats.c.get("trees_with_mount_points"):
        ctx.stats.notes.append("mounting a tmpfs inside the sandbox is not permitted here: the -xdev workload was not run")
    else:
        ctx.require("runs_with_xdev", 20)
    ctx.pmap(removing_prune_worker, [(k, ctx.scale(8, 800), ctx.seed) for k in range(nw)])
    ctx.pmap(bytes_order_worker, [(k, ctx.scale(12, 2000), ctx.seed) for k in range(nw)])
    ctx.require("non_utf8_sorted_runs", 20)
    ctx.require("follow_mode_sequences_with_link_loop", 3)
    ctx.require("order_runs(-H,symlinked-root,depth)", 5)
    ctx.require("order_runs(-L,symlinked-root,depth)", 5)
    for key in ("runs_with_subtree_cut", "metamorphic_depth_pairs", "runs_depth_first(depth)", "runs_depth_first(delete)", "binary_runs"):
        ctx.require(key, 5)
