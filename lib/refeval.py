"""Independent parser + evaluator for find's expression language (reference evaluation of C01).

Grammar (lowest to highest precedence):
    list := or (',' or)*
    or   := and (('-o'|'-or') and)*
    and  := not (('-a'|'-and')? not)*
    not  := ('!'|'-not')* primary
    primary := '(' list ')' | test | action | option
"""
import os
import re
import stat
import zlib

import fnm

ARITY = {
    "-print": 0, "-print0": 0, "-printf": 1, "-fprint": 1, "-fprint0": 1, "-fprintf": 2, "-ls": 0, "-fls": 1,
    "-true": 0, "-false": 0, "-name": 1, "-iname": 1, "-path": 1, "-ipath": 1, "-wholename": 1, "-iwholename": 1,
    "-lname": 1, "-ilname": 1, "-regex": 1, "-iregex": 1, "-regextype": 1, "-type": 1, "-xtype": 1, "-size": 1,
    "-empty": 0, "-perm": 1, "-links": 1, "-inum": 1, "-uid": 1, "-gid": 1, "-user": 1, "-group": 1, "-newer": 1,
    "-samefile": 1, "-delete": 0, "-prune": 0, "-quit": 0, "-depth": 0, "-d": 0, "-maxdepth": 1, "-mindepth": 1,
    "-noleaf": 0, "-xdev": 0, "-mount": 0, "-daystart": 0, "-sorted": 0, "-follow": 0, "-readable": 0,
    "-writable": 0, "-executable": 0, "-nouser": 0, "-nogroup": 0,
    "-mtime": 1, "-atime": 1, "-ctime": 1, "-mmin": 1, "-amin": 1, "-cmin": 1,
}
ACTIONS = {"-print", "-print0", "-printf", "-fprint", "-fprint0", "-fprintf", "-ls", "-fls", "-exec", "-execdir", "-delete"}
OPTIONS = {"-depth", "-d", "-maxdepth", "-mindepth", "-noleaf", "-xdev", "-mount", "-daystart", "-sorted", "-follow",
           "-regextype"}


class ParseError(Exception):
    pass


class Parser:
    def __init__(self, toks):
        self.t = list(toks)
        self.i = 0

    def peek(self):
        return self.t[self.i] if self.i < len(self.t) else None

    def next(self):
        x = self.peek()
        self.i += 1
        return x

    def parse(self):
        if not self.t:
            return ("and", [])
        n = self.p_list()
        if self.peek() is not None:
            raise ParseError("trailing " + repr(self.peek()))
        return n

    def p_list(self):
        items = [self.p_or()]
        while self.peek() == ",":
            self.next()
            items.append(self.p_or())
        return items[0] if len(items) == 1 else ("list", items)

    def p_or(self):
        items = [self.p_and()]
        while self.peek() in ("-o", "-or"):
            self.next()
            items.append(self.p_and())
        return items[0] if len(items) == 1 else ("or", items)

    def p_and(self):
        items = [self.p_not()]
        while True:
            t = self.peek()
            if t in ("-a", "-and"):
                self.next()
                items.append(self.p_not())
            elif t is None or t in (")", ",", "-o", "-or"):
                break
            else:
                items.append(self.p_not())
        return items[0] if len(items) == 1 else ("and", items)

    def p_not(self):
        neg = 0
        while self.peek() in ("!", "-not"):
            self.next()
            neg += 1
        p = self.p_primary()
        # the implementation folds a run of '!' by parity; semantics are identical
        for _ in range(neg):
            p = ("not", p)
        return p

    def p_primary(self):
        t = self.next()
        if t is None:
            raise ParseError("expected primary")
        if t == "(":
            n = self.p_list()
            if self.next() != ")":
                raise ParseError("expected )")
            return n
        if t in ("-exec", "-execdir"):
            args = []
            while True:
                a = self.next()
                if a is None:
                    raise ParseError("unterminated -exec")
                if a == ";":
                    return ("prim", t, tuple(args), ";")
                if a == "+" and args and args[-1] == "{}":
                    return ("prim", t, tuple(args[:-1]), "+")
                args.append(a)
        if t in ARITY:
            n = ARITY[t]
            args = []
            for _ in range(n):
                a = self.next()
                if a is None:
                    raise ParseError("missing operand")
                args.append(a)
            return ("prim", t, tuple(args), None)
        raise ParseError("unknown primary " + repr(t))


def prims(ast):
    if ast[0] == "prim":
        yield ast
    elif ast[0] == "not":
        yield from prims(ast[1])
    else:
        for c in ast[1]:
            yield from prims(c)


def has_action(ast):
    return any(p[1] in ACTIONS for p in prims(ast))


def global_options(ast):
    o = {"depth_first": False, "mindepth": 0, "maxdepth": None, "sorted": False, "follow": False}
    for p in prims(ast):
        if p[1] in ("-depth", "-d", "-delete"):
            o["depth_first"] = True
        elif p[1] == "-maxdepth":
            o["maxdepth"] = int(p[2][0])
        elif p[1] == "-mindepth":
            o["mindepth"] = int(p[2][0])
        elif p[1] == "-sorted":
            o["sorted"] = True
        elif p[1] == "-follow":
            o["follow"] = True
    return o


def shape(ast):
    """Operator-shape signature (for counting distinct expression shapes)."""
    if ast[0] == "prim":
        return ast[1][1:3]
    if ast[0] == "not":
        return "!(" + shape(ast[1]) + ")"
    return ast[0][0] + "(" + " ".join(shape(c) for c in ast[1]) + ")"


# ------------------------------------------------------------------------------------------


def rec_chain(args):
    c = 0
    for a in args:
        b = a if isinstance(a, bytes) else a.encode("utf-8", "surrogateescape")
        c = zlib.crc32(len(b).to_bytes(4, "little"), c)
        c = zlib.crc32(b, c)
    return c


def cmp_num(spec, value):
    m = re.fullmatch(r"([+-]?)(\d+)", spec)
    if not m:
        raise ValueError(spec)
    n = int(m.group(2))
    if m.group(1) == "+":
        return value > n
    if m.group(1) == "-":
        return value < n
    return value == n


UNITS = {"c": 1, "w": 2, "b": 512, "": 512, "k": 1 << 10, "M": 1 << 20, "G": 1 << 30}


def size_test(spec, nbytes):
    m = re.fullmatch(r"([+-]?)(\d+)([cwbkMG]?)", spec)
    if not m:
        raise ValueError(spec)
    u = UNITS[m.group(3)]
    v = -(-nbytes // u)
    return cmp_num(m.group(1) + m.group(2), v)


def mini_printf(fmt, e):
    out = bytearray()
    i = 0
    while i < len(fmt):
        c = fmt[i]
        if c == "\\":
            i += 1
            d = fmt[i]
            out += {"n": b"\n", "0": b"\0", "t": b"\t", "\\": b"\\"}[d]
        elif c == "%":
            i += 1
            d = fmt[i]
            if d == "p":
                out += os.fsencode(e.path)
            elif d == "f":
                out += os.fsencode(e.name)
            elif d == "d":
                out += str(e.depth).encode()
            elif d == "%":
                out += b"%"
            else:
                raise ValueError("mini_printf: %" + d)
        else:
            out += c.encode()
        i += 1
    return bytes(out)


class Env:
    """Evaluation environment. sinks: name -> list of chunks; chunk = ('b', bytes) | ('ls', path)."""

    def __init__(self, cwd, exec_truth=None, render=mini_printf):
        self.cwd = cwd
        self.sinks = {}
        self.quit = False
        self.prune = False
        self.exec_log = []     # (kind, cwd-relative dir or None, argv)
        self.plus = {}         # id(prim) -> list of pending paths
        self.deletes = []
        self.exec_truth = exec_truth
        self.render = render
        self.evaluated_quit = 0

    def emit(self, sink, chunk):
        self.sinks.setdefault(sink, []).append(chunk)


def evaluate(ast, e, env):
    """Returns the truth value; sets env.quit / env.prune."""
    k = ast[0]
    if k == "and":
        for c in ast[1]:
            v = evaluate(c, e, env)
            if env.quit:
                return v
            if not v:
                return False
        return True
    if k == "or":
        for c in ast[1]:
            v = evaluate(c, e, env)
            if env.quit:
                return v
            if v:
                return True
        return False
    if k == "list":
        v = False
        for c in ast[1]:
            v = evaluate(c, e, env)
            if env.quit:
                return v
        return v
    if k == "not":
        return not evaluate(ast[1], e, env)
    return prim(ast, e, env)


def prim(ast, e, env):
    _, name, args, term = ast
    rec = e.rec
    if name in OPTIONS:
        return True
    if name == "-true":
        return True
    if name == "-false":
        return False
    if name == "-print":
        env.emit("stdout", ("b", os.fsencode(e.path) + b"\n"))
        return True
    if name == "-print0":
        env.emit("stdout", ("b", os.fsencode(e.path) + b"\0"))
        return True
    if name == "-printf":
        env.emit("stdout", ("b", env.render(args[0], e)))
        return True
    if name == "-fprint":
        env.emit(args[0], ("b", os.fsencode(e.path) + b"\n"))
        return True
    if name == "-fprint0":
        env.emit(args[0], ("b", os.fsencode(e.path) + b"\0"))
        return True
    if name == "-fprintf":
        env.emit(args[0], ("b", env.render(args[1], e)))
        return True
    if name == "-ls":
        env.emit("stdout", ("ls", e.path))
        return True
    if name == "-fls":
        env.emit(args[0], ("ls", e.path))
        return True
    if name in ("-name", "-iname"):
        return fnm.fnmatch(args[0], e.name, name == "-iname")
    if name in ("-path", "-ipath", "-wholename", "-iwholename"):
        return fnm.fnmatch(args[0], e.path, name.startswith("-i"))
    if name in ("-regex", "-iregex"):
        # only the subset literal / '.' / '*' / '.*' (same meaning in every find syntax and in Python re)
        import re as _re
        return _re.fullmatch(args[0], e.path, (_re.I if name == "-iregex" else 0) | _re.S) is not None
    if name == "-type":
        return e.type_letter() == args[0]
    if name == "-xtype":
        return e.type_letter(e.xrec) == args[0]
    if name == "-size":
        return size_test(args[0], rec.st_size)
    if name == "-empty":
        if stat.S_ISREG(rec.st_mode):
            return rec.st_size == 0
        if stat.S_ISDIR(rec.st_mode):
            p = os.path.join(env.cwd, e.path) if not e.path.startswith("/") else e.path
            try:
                return len(os.listdir(p)) == 0
            except OSError:
                return False
        return False
    if name == "-perm":
        a = args[0]
        bits = stat.S_IMODE(rec.st_mode)
        if a.startswith("-"):
            m = int(a[1:], 8)
            return bits & m == m
        if a.startswith("/"):
            m = int(a[1:], 8)
            return m == 0 or bits & m != 0
        return bits == int(a, 8)
    if name == "-links":
        return cmp_num(args[0], rec.st_nlink)
    if name == "-inum":
        return cmp_num(args[0], rec.st_ino)
    if name == "-uid":
        return cmp_num(args[0], rec.st_uid)
    if name == "-gid":
        return cmp_num(args[0], rec.st_gid)
    if name == "-prune":
        if stat.S_ISDIR(rec.st_mode):
            env.prune = True
        return True
    if name == "-quit":
        env.quit = True
        env.evaluated_quit += 1
        return True
    if name == "-delete":
        env.deletes.append(e.path)
        return True
    if name in ("-exec", "-execdir"):
        if name == "-execdir":
            p = e.path.rstrip("/")
            base = p.rsplit("/", 1)[-1]
            arg = "./" + base
            d = p.rsplit("/", 1)[0] if "/" in p else ""
        else:
            arg = e.path
            d = None
        if term == ";":
            argv = [args[0]] + [a.replace("{}", arg) for a in args[1:]]
            env.exec_log.append((name, d, argv, e.path))
            if env.exec_truth is None:
                return True
            return env.exec_truth(argv, e)
        env.plus.setdefault(id(ast), (ast, []))[1].append((d, arg, e.path))
        return True
    raise ValueError("refeval: unsupported primary " + name)


LS_RE = rb" *\d+ +\d+ [d?\-][rwx\-]{9} +\d+ +\S+ +\S+ +\d+ \w{3} [ \d]\d \d\d:\d\d "


def match_chunks(actual, chunks):
    """Compare observed bytes with the expected chunk list. Returns None if equal, else a description."""
    pos = 0
    for idx, ch in enumerate(chunks):
        if ch[0] == "b":
            b = ch[1]
            if actual[pos:pos + len(b)] != b:
                # a name that is not valid UTF-8 is printed lossily (U+FFFD) by this implementation; the properties that use this
                # comparison speak about valid UTF-8 names (C07) or about other things than the rendering of such names
                b2 = b.decode("utf-8", "replace").encode("utf-8")
                if b2 != b and actual[pos:pos + len(b2)] == b2:
                    pos += len(b2)
                    continue
                return "chunk %d: expected %r, observed %r" % (idx, b[:80], actual[pos:pos + len(b) + 20][:100])
            pos += len(b)
        else:
            m = re.compile(LS_RE + re.escape(os.fsencode(ch[1])) + rb"\n").match(actual, pos)
            if not m:
                return "chunk %d: expected -ls line for %r, observed %r" % (idx, ch[1], actual[pos:pos + 120])
            pos = m.end()
    if pos != len(actual):
        return "unexpected trailing output %r" % actual[pos:pos + 120]
    return None


def expected_bytes(chunks):
    return b"".join(c[1] if c[0] == "b" else b"<ls " + os.fsencode(c[1]) + b">\n" for c in chunks)
