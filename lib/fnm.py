"""glibc fnmatch(3) through ctypes (oracle for -name/-path/-lname)."""
import ctypes
import ctypes.util
import locale

_libc = ctypes.CDLL(ctypes.util.find_library("c") or "libc.so.6", use_errno=True)
_libc.fnmatch.argtypes = [ctypes.c_char_p, ctypes.c_char_p, ctypes.c_int]
_libc.fnmatch.restype = ctypes.c_int
_libc.setlocale.argtypes = [ctypes.c_int, ctypes.c_char_p]
_libc.setlocale.restype = ctypes.c_char_p

FNM_CASEFOLD = 1 << 4
LC_ALL = 6
_current = [None]


def set_locale(name):
    """name: 'C' or 'C.UTF-8'"""
    if _current[0] == name:
        return
    r = _libc.setlocale(LC_ALL, name.encode())
    if not r:
        raise RuntimeError("setlocale(%s) failed" % name)
    _current[0] = name


def fnmatch(pattern, subject, casefold=False):
    """True iff fnmatch(pattern, subject, flags) == 0 in the current C-library locale."""
    if isinstance(pattern, str):
        pattern = pattern.encode("utf-8", "surrogateescape")
    if isinstance(subject, str):
        subject = subject.encode("utf-8", "surrogateescape")
    if b"\0" in pattern or b"\0" in subject:
        raise ValueError("NUL")
    if _current[0] is None:
        set_locale("C.UTF-8")
    return _libc.fnmatch(pattern, subject, FNM_CASEFOLD if casefold else 0) == 0
