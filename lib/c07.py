"""C07 — find -print0 paths are byte-exact and survive the pipe into xargs -0.

Monitor: stdout bytes of the real find binary vs the tree *spec* (names are known byte strings, no file-system
readback involved), and the recorder argv behind a real `find ... -print0 | xargs -0 rec` pipeline."""
import collections
import os
import subprocess

import common
import treegen
import xref
from common import Stats


def expected_sequence(nodes, root_spelling):
    """Pre-order, siblings in byte order, paths spelled from the root as given."""
    kids = collections.defaultdict(list)
    for n in nodes:
        if n.path == "r":
            continue
        parent, name = n.path.rsplit("/", 1)
        kids[parent].append(name)
    out = []

    def visit(spec_path, shown):
        out.append(shown)
        for name in sorted(kids.get(spec_path, []), key=lambda s: s.encode()):
            child_shown = shown + name if shown.endswith("/") else shown + "/" + name
            visit(spec_path + "/" + name, child_shown)
    visit("r", root_spelling)
    return [p.encode() for p in out]


BLANK_ROOTS = [" ", "  ", "\t", "\n", " \n ", "\n\n", " \t", "\x0b", "\r"]


def long_chain_tree(rng):
    """A directory whose name contains a newline (or another hostile piece) with a chain of 150-255-byte names beneath it, so
    that single records reach several kilobytes — beyond stdio buffer sizes — with the hostile byte early in the record."""
    nodes = [treegen.Node("r", "d")]
    head = rng.choice(["new\nline", "tab\there", " lead", "q'uote", "nl\n", "\n", "a\nb\nc"])
    p = "r/" + head
    nodes.append(treegen.Node(p, "d"))
    nodes.append(treegen.Node("r/plain", "f"))
    total = len(p.encode())
    for lvl in range(rng.randint(3, 12)):
        ch = rng.choice(["a", "b", "é", "x", "Z"])
        n = rng.choice([150, 200, 250, 255]) // len(ch.encode())
        name = (ch * n)[:n]
        if lvl % 3 == 1:
            name = name[:-3] + rng.choice(["\n", " ", "'"]) + "yz"
        if total + len(name.encode()) + 1 > 3600:
            break
        p = p + "/" + name
        total += len(name.encode()) + 1
        nodes.append(treegen.Node(p, "d"))
        nodes.append(treegen.Node(p + "/f" + str(lvl), "f"))
        if rng.random() < 0.5:
            nodes.append(treegen.Node(p + "/g\n" + str(lvl), "f"))
    return nodes


def build_very_long(sb, rng):
    """A chain of directories whose total path exceeds PATH_MAX (4096). Such trees can only be built, and walked, with
    relative names; find reaches them because it opens directories relative to where it already is... or reports an error.
    Returns the list of expected paths (str) in -sorted pre-order, or None if the file system refuses."""
    cwd = os.getcwd()
    paths = ["r"]
    try:
        os.mkdir(os.path.join(sb, "r"))
        os.chdir(os.path.join(sb, "r"))
        cur = "r"
        # 16 levels of 250-byte names = 4017 bytes: the directory itself can still be opened, the files in it have paths of 4023..4273 bytes
        for lvl in range(16):
            name = rng.choice("abcxyz") * 250
            os.mkdir(name)
            os.chdir(name)
            cur = cur + "/" + name
            paths.append(cur)
        for nm in sorted(["f" * 5, "g" * 200, "h" * 254, "i" * 255]):
            open(nm, "w").close()
            paths.append(cur + "/" + nm)
        return paths
    except OSError:
        return None
    finally:
        os.chdir(cwd)


def very_long_worker(job):
    k, nruns, seed = job
    st = Stats()
    rng = common.rng_for(seed, "C07L", k)
    base = common.mkscratch("C07L%d" % k)
    try:
        for t in range(nruns):
            sb = os.path.join(base, "t%d" % t)
            os.makedirs(sb)
            exp = build_very_long(sb, rng)
            if exp is None:
                st.inc("very_long_tree_not_buildable")
                continue
            for mode in ("-print0", "-print"):
                delim = b"\0" if mode == "-print0" else b"\n"
                rc, out, err, to = common.run_cmd([common.FIND, "r", "-sorted", mode], cwd=sb, env=common.clean_env(), timeout=60)
                st.inc("evaluations")
                st.inc("very_long_path_runs")
                got = out.split(delim)[:-1]
                want = [p.encode() for p in exp]
                st.add("distinct", (mode, tuple(len(p) for p in exp)))
                st.c["records_longer_than_4096_bytes"] += sum(1 for p in want if len(p) > 4096)
                # entries that find cannot examine may be diagnosed instead of printed, but what is printed must be exact and complete up to there
                if rc == 0:
                    if got != want:
                        bad = [(len(g), len(w)) for g, w in zip(got, want) if g != w][:3]
                        st.violate("print-not-byte-exact", None, {"mode": mode, "problem": "paths beyond PATH_MAX altered", "lengths(observed,expected)": bad,
                                                                  "n_observed": len(got), "n_expected": len(want)}, {"tree": "lib/c07.py build_very_long"})
                else:
                    if any(g not in want for g in got):
                        st.violate("print-not-byte-exact", None, {"mode": mode, "problem": "a printed path is not a path of the tree", "exit": rc,
                                                                  "stderr": err[-200:]}, {"tree": "lib/c07.py build_very_long"})
            common.force_rmtree(sb)
    finally:
        common.force_rmtree(base)
    return st


def many_worker(job):
    """Thousands of paths through the pipe while the system's command-line budget is small (soft stack limit 512 KiB..2 MiB, so
    ARG_MAX = 128..512 KiB): xargs has to split the stream into several command lines at the system limit, and still every path
    arrives exactly once, in order."""
    import resource
    k, nruns, seed = job
    st = Stats()
    rng = common.rng_for(seed, "C07M", k)
    base = common.mkscratch("C07M%d" % k)
    try:
        for t in range(nruns):
            sb = os.path.join(base, "t%d" % t)
            os.makedirs(os.path.join(sb, "r"))
            stack_kib = rng.choice([512, 512, 640, 1024, 2048])
            nfiles = rng.randint(6000, 9000) * (stack_kib // 512)
            alphabet = ["a", "b", "x", "_", "-", "0", " ", "あ", "é", "z"]
            names = set()
            ndirs = rng.randint(1, 12)
            exp = ["r"]
            dirs = ["d%02d" % i for i in range(ndirs)]
            per = nfiles // ndirs
            for d in dirs:
                os.mkdir(os.path.join(sb, "r", d))
            for d in sorted(dirs, key=lambda x: x.encode()):
                exp.append("r/" + d)
                ns = set()
                while len(ns) < per:
                    ns.add("".join(rng.choice(alphabet) for _ in range(rng.randint(3, 22))).strip() or "q")
                for n_ in ns:
                    fd = os.open(os.path.join(sb, "r", d, n_), os.O_CREAT | os.O_WRONLY, 0o644)
                    os.close(fd)
                exp += ["r/" + d + "/" + n_ for n_ in sorted(ns, key=lambda x: x.encode())]
            exp = [e.encode() for e in exp]
            log = os.path.join(sb, "rec.log")
            env2 = common.clean_env({"VERIF_REC_LOG": log})
            lim = stack_kib * 1024

            def pre():
                resource.setrlimit(resource.RLIMIT_STACK, (lim, resource.RLIM_INFINITY))
            p1 = subprocess.Popen([common.FIND, "r", "-sorted", "-print0"], cwd=sb, env=common.clean_env(), stdout=subprocess.PIPE,
                                  stderr=subprocess.PIPE)
            p2 = subprocess.Popen([common.XARGS, "-0", common.REC, "--"], cwd=sb, env=env2, stdin=p1.stdout, stdout=subprocess.PIPE,
                                  stderr=subprocess.PIPE, preexec_fn=pre)
            p1.stdout.close()
            rp = {"tree": "lib/c07.py many_worker seed=%r k=%d t=%d" % (seed, k, t), "stack_kib": stack_kib}
            try:
                o2, e2 = p2.communicate(timeout=300)
                p1.wait(timeout=60)
            except subprocess.TimeoutExpired:
                p1.kill()
                p2.kill()
                st.violate("hang", None, {"root": "r", "files": nfiles}, rp)
                continue
            inv = xref.read_reclog(log)
            got = [a for _, argv in inv for a in argv[1:]]
            st.inc("evaluations")
            st.inc("pipelines_with_thousands_of_paths")
            st.inc("argv_elements_compared", len(got))
            st.inc("command_lines_in_big_pipelines", len(inv))
            st.add("distinct", (stack_kib, nfiles, len(inv)))
            if len(inv) > 1:
                st.inc("pipelines_split_at_the_system_limit")
            if got != exp or p2.returncode != 0 or p1.returncode != 0:
                c_exp, c_got = collections.Counter(exp), collections.Counter(got)
                st.violate("pipe-not-exact", None,
                           {"root": "r", "paths": len(exp), "delivered": len(got), "stack_limit_kib": stack_kib, "find_exit": p1.returncode,
                            "xargs_exit": p2.returncode, "stderr": (e2 or b"")[-200:], "lost": list((c_exp - c_got))[:5],
                            "extra_or_altered": list((c_got - c_exp))[:5], "order_only": c_exp == c_got, "command_lines": len(inv)}, rp)
            common.force_rmtree(sb)
    finally:
        common.force_rmtree(base)
    return st


def loop_worker(job):
    """-L / -follow over a tree in which a symbolic link leads back to an ancestor directory: the cycle is diagnosed (non-zero exit
    status), and every other path - in particular the entries that come after the link in its directory - still goes through the
    pipe to xargs -0 exactly once."""
    import refwalk
    import treegen
    k, nruns, seed = job
    st = Stats()
    rng = common.rng_for(seed, "C07loop", k)
    base = common.mkscratch("C07o%d" % k)
    try:
        for t in range(nruns):
            sb = os.path.join(base, "t%d" % t)
            os.makedirs(sb)
            names = rng.sample(["-first", "a", "b", "m", "x y", "z", "~last", "é", "0", "Q"], rng.randint(4, 8))
            nodes = [treegen.Node("tree", "d")]
            sub = rng.choice(names)
            for n_ in names:
                if n_ == sub:
                    nodes.append(treegen.Node("tree/" + n_, "d"))
                    for m_ in rng.sample(["in1", "k", "loop", "zz", "-d"], 3):
                        nodes.append(treegen.Node("tree/%s/%s" % (n_, m_), "f"))
                else:
                    nodes.append(treegen.Node("tree/" + n_, rng.choice(["f", "f", "d"])))
            # the cycle-closing links, placed so that siblings follow them in byte order
            for parent, target in rng.sample([("tree", "."), ("tree", "../tree"), ("tree/" + sub, ".."), ("tree/" + sub, ".")], rng.randint(1, 2)):
                nm = rng.choice(["c", "lnk", "M", "1"])
                if all(x.path != parent + "/" + nm for x in nodes):
                    nodes.append(treegen.Node(parent + "/" + nm, "l", target=target))
            treegen.build(sb, nodes)
            flag, opt = rng.choice([(["-L"], []), ([], ["-follow"]), (["-L"], ["-follow"])])
            ents, w = refwalk.walk_list(["tree"], "L", 0, None, False, True, sb)
            must = [e.path.encode() for e in ents if e.path not in w.optional]
            may = set(p_.encode() for p_ in w.optional)
            log = os.path.join(sb, "rec.log")
            p1 = subprocess.Popen([common.FIND] + flag + ["tree"] + opt + ["-sorted", "-print0"], cwd=sb, env=common.clean_env(), stdout=subprocess.PIPE,
                                  stderr=subprocess.PIPE)
            p2 = subprocess.Popen([common.XARGS, "-0", "-n", "3", common.REC, "--"], cwd=sb, env=common.clean_env({"VERIF_REC_LOG": log}),
                                  stdin=p1.stdout, stdout=subprocess.PIPE, stderr=subprocess.PIPE)
            p1.stdout.close()
            rp = {"tree": [n.to_json() for n in nodes], "args": flag + ["tree"] + opt}
            try:
                o2, e2 = p2.communicate(timeout=120)
                e1 = p1.stderr.read()
                p1.wait(timeout=60)
            except subprocess.TimeoutExpired:
                p1.kill()
                p2.kill()
                st.violate("hang", None, {"root": "tree"}, rp)
                continue
            got = [a for _, argv in xref.read_reclog(log) for a in argv[1:]]
            st.inc("evaluations")
            st.inc("pipelines_over_a_link_cycle")
            st.add("distinct", tuple(must))
            core = [g for g in got if g not in may]
            if core != must or len(set(got)) != len(got) or p2.returncode != 0 or p1.returncode == 0 or not e1.strip():
                st.violate("pipe-not-exact", None, {"root": "tree", "args": flag + ["tree"] + opt, "find_exit": p1.returncode, "xargs_exit": p2.returncode,
                                                    "find_stderr": e1[-200:], "lost": [x for x in must if x not in got][:6],
                                                    "unexpected": [x for x in core if x not in must][:6]}, rp)
            common.force_rmtree(sb)
    finally:
        common.force_rmtree(base)
    return st


def drain_worker(job):
    """find -print0 | xargs -0 -I{} CMD {} where CMD reads its standard input to the end (the recorder in 'drain' mode, standing for ssh,
    ffmpeg, cat ...): the paths still waiting in the pipe are xargs' input, not the command's - every path is delivered once."""
    k, nruns, seed = job
    st = Stats()
    rng = common.rng_for(seed, "C07drain", k)
    base = common.mkscratch("C07d%d" % k)
    try:
        for t in range(nruns):
            sb = os.path.join(base, "t%d" % t)
            os.makedirs(os.path.join(sb, "r"))
            names = set()
            while len(names) < 350:
                names.add("".join(rng.choice(["a", "b", " ", "'", "x", "{}", "é", "-", "q"]) for _ in range(rng.randint(30, 90))).strip() or "z")
            for n_ in names:
                open(os.path.join(sb, "r", n_), "w").close()
            exp = [b"r"] + [("r/" + n_).encode() for n_ in sorted(names, key=lambda x: x.encode())]
            log = os.path.join(sb, "rec.log")
            opt = rng.choice([["-I", "{}"], ["-i"], ["--replace={}"], ["-n", "1"], ["-L", "1"]])
            tmpl = ["{}"] if opt[0] in ("-I", "-i") or opt[0].startswith("--replace") else []
            p1 = subprocess.Popen([common.FIND, "r", "-sorted", "-print0"], cwd=sb, env=common.clean_env(), stdout=subprocess.PIPE, stderr=subprocess.PIPE)
            p2 = subprocess.Popen([common.XARGS, "-0"] + opt + [common.REC, "--"] + tmpl, cwd=sb,
                                  env=common.clean_env({"VERIF_REC_LOG": log, "VERIF_REC_DRAIN": "1"}), stdin=p1.stdout, stdout=subprocess.PIPE,
                                  stderr=subprocess.PIPE)
            p1.stdout.close()
            rp = {"tree": "lib/c07.py drain_worker seed=%r k=%d t=%d" % (seed, k, t), "xargs_options": opt}
            try:
                o2, e2 = p2.communicate(timeout=300)
                p1.wait(timeout=60)
            except subprocess.TimeoutExpired:
                p1.kill()
                p2.kill()
                st.violate("hang", None, {"root": "r", "xargs_options": opt}, rp)
                continue
            got = [a for _, argv in xref.read_reclog(log) for a in argv[1:]]
            st.inc("evaluations")
            st.inc("pipelines_whose_command_reads_its_standard_input")
            st.add("distinct", (tuple(opt), len(exp)))
            if got != exp or p2.returncode != 0:
                st.violate("pipe-not-exact", None, {"root": "r", "xargs_options": opt, "paths": len(exp), "delivered": len(got), "xargs_exit": p2.returncode,
                                                    "stderr": (e2 or b"")[-200:], "note": "the command consumes its standard input"}, rp)
            common.force_rmtree(sb)
    finally:
        common.force_rmtree(base)
    return st


def worker(job):
    k, ntrees, seed = job
    st = Stats()
    rng = common.rng_for(seed, "C07", k)
    base = common.mkscratch("C07w%d" % k)
    try:
        for t in range(ntrees):
            sb = os.path.join(base, "t%d" % t)
            os.makedirs(sb)
            shape = rng.choice(["hostile", "hostile", "hostile", "long-chain"])
            nodes = long_chain_tree(rng) if shape == "long-chain" else treegen.hostile_tree(rng, "r", max_nodes=rng.choice([6, 14, 30]))
            try:
                treegen.build(sb, nodes)
            except OSError as e:
                common.force_rmtree(sb)
                continue
            st.inc("trees")
            st.inc("tree_shape:" + shape)
            for n_ in nodes:
                st.add("record_length_kb", len(n_.path.encode()) // 1024)
                if len(n_.path.encode()) > 1100:
                    st.inc("records_longer_than_1100_bytes")
            for n in nodes:
                for c in treegen.hostile_classes(n.path.rsplit("/", 1)[-1]):
                    st.add("hostile_classes", c)
                    st.inc("names_with:" + c)
            spelling = rng.choice(["r", "./r", "r/", os.path.join(sb, "r"), "r//", "./r/", "BLANK", "BLANK", "BLANK/"])
            if spelling.startswith("BLANK"):
                # the starting point itself is a blank-only (or newline-only) name: the whole record is then blank
                blank = rng.choice(BLANK_ROOTS)
                os.rename(os.path.join(sb, "r"), os.path.join(sb, blank))
                spelling = spelling.replace("BLANK", blank)
                st.inc("blank_only_starting_points")
            st.add("root_spellings", spelling if not spelling.startswith("/") else "<absolute>")
            exp = expected_sequence(nodes, spelling)
            env = common.clean_env()
            rp = {"tree": [n.to_json() for n in nodes], "root": spelling}
            # (a) -print0, unsorted: multiset ; sorted: sequence
            # the trees contain no links, so -H/-L/-follow must not change a single byte
            flag = rng.choice([[], [], ["-H"], ["-L"], ["-P"]])
            follow_opt = ["-follow"] if rng.random() < 0.15 else []
            st.inc("follow_flag:" + ("".join(flag + follow_opt) or "none"))
            for mode in ("print0", "print0-sorted", "print-sorted", "fprint0"):
                args = [common.FIND] + flag + [spelling] + follow_opt
                if "sorted" in mode:
                    args.append("-sorted")
                if mode == "fprint0":
                    args += ["-fprint0", "../out0"] if False else ["-fprint0", os.path.join(sb, "out0")]
                else:
                    args.append("-print" if mode.startswith("print-") else "-print0")
                rc, out, err, to = common.run_cmd(args, cwd=sb, env=env, timeout=60)
                if mode == "fprint0":
                    out = open(os.path.join(sb, "out0"), "rb").read()
                    os.unlink(os.path.join(sb, "out0"))
                st.inc("evaluations")
                st.inc("find_runs")
                st.inc("bytes_compared", len(out))
                delim = b"\n" if mode.startswith("print-") else b"\0"
                want = b"".join(p + delim for p in exp)
                bad = None
                if rc != 0:
                    bad = "exit status %r: %r" % (rc, err[-200:])
                elif "sorted" in mode:
                    if out != want:
                        bad = "output bytes differ from the spec sequence"
                else:
                    if not out.endswith(delim) and out:
                        bad = "output not terminated"
                    elif collections.Counter(out.split(delim)[:-1]) != collections.Counter(exp):
                        bad = "multiset of printed paths differs from the spec"
                if bad:
                    got = out.split(delim)[:-1]
                    st.violate("print-not-byte-exact", None,
                               {"mode": mode, "root": spelling, "problem": bad,
                                "missing": [p for p in exp if p not in got][:5], "unexpected": [p for p in got if p not in exp][:5]}, rp)
            # (b2) the same tree reached through a symbolic link given as the starting point, followed because of -H (or -L), in
            # depth-first order with -mindepth 1: every record below the link, spelled through it, and nothing else
            if rng.random() < 0.3:
                real = spelling.rstrip("/") if not spelling.startswith("/") else spelling
                real = real[2:] if real.startswith("./") else real
                os.symlink(real, os.path.join(sb, "lnk"))
                sp_b = os.fsencode(spelling)
                want_l = [b"lnk/" + p_[len(sp_b):].lstrip(b"/") for p_ in exp[1:]]
                fl = rng.choice(["-H", "-H", "-L"])
                md = rng.choice([1, 1, 2])
                if md == 2:
                    want_l = [p_ for p_ in want_l if p_.count(b"/") >= 2]
                args = [common.FIND, fl, "lnk", "-depth", "-mindepth", str(md), "-print0"]
                rc, out, err, to = common.run_cmd(args, cwd=sb, env=env, timeout=60)
                os.unlink(os.path.join(sb, "lnk"))
                st.inc("evaluations")
                st.inc("find_runs")
                st.inc("runs_through_a_followed_link_starting_point_depth_first")
                if rc != 0 or collections.Counter(out.split(b"\0")[:-1]) != collections.Counter(want_l) or (out and not out.endswith(b"\0")):
                    got = out.split(b"\0")[:-1]
                    st.violate("print-not-byte-exact", None,
                               {"mode": " ".join(args[1:]), "root": "lnk -> " + real, "problem": "multiset of printed paths differs from the spec (exit %r)" % rc,
                                "missing": [p_ for p_ in want_l if p_ not in got][:5], "unexpected": [p_ for p_ in got if p_ not in want_l][:5]}, rp)
            # (c) the pipe into xargs -0
            log = os.path.join(sb, "rec.log")
            env2 = common.clean_env({"VERIF_REC_LOG": log})
            # the command may fail (any status except 255, which xargs treats as "stop"): every path is still delivered once
            statuses = None
            if rng.random() < 0.5:
                statuses = [rng.choice(["0", "0", "1", "2", "126", "127", "125", "200", "254"]) for _ in range(60)]
                env2["VERIF_REC_SCRIPT"] = ",".join(statuses)
                st.inc("pipelines_with_failing_command")
            p1 = subprocess.Popen([common.FIND] + flag + [spelling] + follow_opt + ["-sorted", "-print0"], cwd=sb, env=env, stdout=subprocess.PIPE, stderr=subprocess.PIPE)
            nper = rng.choice([None, 1, 3, 4, 6])
            sopt = []
            if rng.random() < 0.3 and exp:
                # a -s budget that fills before -n is reached (no -x): the pending command line runs and reading goes on
                room = max(len(p_) for p_ in exp) + 1
                sopt = ["-s", str(len(common.REC) + 1 + 3 + room * rng.choice([1, 2, 3]) + rng.randint(0, 5))]
                st.inc("pipelines_with_a_tight_s_budget")
            xa = [common.XARGS, "-0"] + (["-n", str(nper)] if nper else []) + sopt + [common.REC, "--"]
            p2 = subprocess.Popen(xa, cwd=sb, env=env2, stdin=p1.stdout, stdout=subprocess.PIPE, stderr=subprocess.PIPE)
            p1.stdout.close()
            try:
                o2, e2 = p2.communicate(timeout=120)
                p1.wait(timeout=60)
            except subprocess.TimeoutExpired:
                p1.kill()
                p2.kill()
                st.violate("hang", None, {"root": spelling}, rp)
                continue
            inv = xref.read_reclog(log)
            got = [a for _, argv in inv for a in argv[1:]]
            st.inc("evaluations")
            st.inc("pipelines")
            st.inc("argv_elements_compared", len(got))
            st.add("distinct", tuple(exp))
            ok_rc = (0,) if not statuses else (0, 123)
            if got != exp or p2.returncode not in ok_rc or p1.returncode != 0:
                c_exp, c_got = collections.Counter(exp), collections.Counter(got)
                st.violate("pipe-not-exact", None,
                           {"root": spelling, "find_exit": p1.returncode, "xargs_exit": p2.returncode, "stderr": (e2 or b"")[-200:],
                            "lost": list((c_exp - c_got))[:5], "extra_or_altered": list((c_got - c_exp))[:5],
                            "order_only": c_exp == c_got}, rp)
            if t % 7 == 0:
                st.sample({"root": spelling, "paths": exp[:4]})
            common.force_rmtree(sb)
    finally:
        common.force_rmtree(base)
    return st


def run(ctx):
    ctx.rule = ("trees (depth <= 4) whose names are arbitrary valid UTF-8 without '/' and NUL: only blanks, edge blanks, leading "
                "dashes, newlines, tabs, quotes, backslashes, {}, $(), glob characters, control characters, 4-byte characters, "
                "255-byte names, plus chains of 150-255-byte names below a directory whose name contains a newline (records of several KB); "
                "starting point spelled r, ./r, r/, r//, ./r/, absolute, or itself a blank-only / newline-only name; -print0/-print/-fprint0 and the real "
                "pipe into xargs -0 [-n k]; 6 000-36 000 paths through the pipe under a soft stack limit of 512 KiB-2 MiB (several command "
                "lines, split at the system limit); distinct = expected path sequence")
    ctx.assumptions = ["valid UTF-8 names only (as stated)", "expected bytes come from the tree spec, not from reading the file system back"]
    nw = common.NCPU
    n = ctx.scale(640, 51200)
    ctx.pmap(worker, [(k, n // nw, ctx.seed) for k in range(nw)])
    ctx.pmap(very_long_worker, [(k, ctx.scale(1, 6), ctx.seed) for k in range(nw)])
    ctx.require("very_long_path_runs", 4)
    import deep
    ctx.pmap(deep.deep_worker, [("pipe", k, 1 if ctx.quick else 6, ctx.seed) for k in range(common.NCPU)])
    ctx.require("runs_over_a_tree_deeper_than_the_open_files_limit", 8)
    ctx.pmap(loop_worker, [(k, ctx.scale(4, 120), ctx.seed) for k in range(nw)])
    ctx.require("pipelines_over_a_link_cycle", 20)
    ctx.pmap(drain_worker, [(k, ctx.scale(1, 6), ctx.seed) for k in range(nw)])
    ctx.require("pipelines_whose_command_reads_its_standard_input", 8)
    ctx.pmap(many_worker, [(k, ctx.scale(1, 8), ctx.seed) for k in range(nw)])
    ctx.require("pipelines_split_at_the_system_limit", 4)
    for c in ("names_with:newline", "names_with:leading-dash", "names_with:quote", "names_with:backslash", "names_with:only-blanks",
              "names_with:braces", "names_with:glob", "names_with:4byte", "names_with:long", "names_with:control", "pipelines", "pipelines_with_failing_command", "blank_only_starting_points",
              "tree_shape:long-chain"):
        ctx.require(c, 1)
