"""C11 — malformed command lines are rejected before any action; find never panics, aborts or hangs.

Two monitors over executions of the real code (in-process find_main under catch_unwind; the binary for a sample and for
non-UTF-8 arguments):
 (a) rejection: argument vectors that are ill-formed *by construction* (one corruption applied to a valid expression)
     must give a non-zero exit status, a diagnostic on stderr, no byte on stdout, no child process (recorder log) and an
     unchanged sandbox (snapshot);
 (b) totality: arbitrary token sequences over the whole vocabulary with operands from valid values, near misses and
     arbitrary strings, on trees with every file type, owners without passwd/group entries and entries removed by an
     earlier action: any ordinary exit status is fine; a panic, abort/signal or confirmed hang is a violation.
The fuzzing runs with privileges dropped to uid/gid 65534 on a scratch tree owned by that uid."""
import os
import stat
import subprocess

import common
import exprgen
import treegen
from common import Stats
from exprgen import P
from treegen import Node

NOBODY = 65534

# ------------------------------------------------------------------------------------------
# (a) ill-formed by construction


def valid_gen(rng, allow_delete=True):
    names = ["a", "*a*", "b", "x.txt", "*", "[ab]*"]
    tests = [
        lambda r, g: P("-name", r.choice(names)), lambda r, g: P("-iname", r.choice(names)), lambda r, g: P("-path", "*" + r.choice("ab") + "*"),
        lambda r, g: P("-type", r.choice("fdl")), lambda r, g: P("-size", r.choice(["+1k", "-5", "3c", "0"])), lambda r, g: P("-empty"),
        lambda r, g: P("-true"), lambda r, g: P("-false"), lambda r, g: P("-perm", r.choice(["644", "-u+r", "/222", "u=rw,g=r,o=r"])),
        lambda r, g: P("-links", r.choice(["1", "+1", "-3"])), lambda r, g: P("-newer", "r"), lambda r, g: P("-user", "root"),
        lambda r, g: P("-uid", "0"), lambda r, g: P("-regex", r.choice([".*a", ".*/b.*"])), lambda r, g: P("-mtime", r.choice(["+1", "-1", "0"])),
        lambda r, g: P("-mmin", "-5"), lambda r, g: P("-group", "root"), lambda r, g: P("-xtype", "f"), lambda r, g: P("-inum", "+1"),
        lambda r, g: P("-regextype", "posix-extended"), lambda r, g: P("-newermm", "r"), lambda r, g: P("-lname", "*"),
    ]
    actions = [
        lambda r, g: P("-print"), lambda r, g: P("-print0"), lambda r, g: P("-printf", r.choice(["x%p\\n", "%f %s\\n", "%%"])),
        lambda r, g: P("-exec", common.REC, "A", "{}", ";"), lambda r, g: P("-exec", common.REC, "B", "{}", "+"),
        lambda r, g: P("-execdir", common.REC, "C", "{}", ";"), lambda r, g: P("-prune"), lambda r, g: P("-quit"), lambda r, g: P("-ls"),
        lambda r, g: P("-fprint", "out1"),
    ]
    if allow_delete:
        actions += [lambda r, g: P("-delete"), lambda r, g: P("-delete")]
    options = [lambda r, g: P("-maxdepth", str(r.randint(0, 3))), lambda r, g: P("-mindepth", "1"), lambda r, g: P("-depth"), lambda r, g: P("-daystart"),
               lambda r, g: P("-noleaf"), lambda r, g: P("-xdev"), lambda r, g: P("-sorted")]
    g = exprgen.Gen(rng, tests, actions, options, p_action=0.4, p_option=0.08, maxdepth=3)
    ast = g.node(0)
    return exprgen.render(ast, rng, 0)


BINOPS = ["-a", "-and", "-o", "-or", ","]
DASH_BINOPS = ["-a", "-and", "-o", "-or"]
NOTS = ["!", "-not"]
NEED_OPERAND = ["-name", "-iname", "-path", "-ipath", "-lname", "-regex", "-iregex", "-regextype", "-type", "-xtype", "-size", "-perm", "-printf",
                "-fprint", "-fprintf", "-fls", "-fprint0", "-newer", "-neweram", "-anewer", "-cnewer", "-user", "-group", "-uid", "-gid", "-links",
                "-inum", "-mtime", "-atime", "-ctime", "-mmin", "-amin", "-cmin", "-maxdepth", "-mindepth", "-samefile", "-exec", "-execdir",
                "-files0-from", "-fstype", "-wholename", "-iwholename", "-ilname", "-newermt"]
UNKNOWN = ["-bogus", "-nam", "-printx", "--print", "-Name", "-print1", "-exe", "-newerxy", "-newerab", "-newermmx", "-newerm", "-typ", "-o-", "-aa",
           "-ok", "-okdir", "-context", "-a,", "-print,", "-size5", "-é", "-", "--", "-0", "-fprint1", "-deletee", "-regextypeposix", "-newerBm"]

BAD_OPERANDS = {
    "-type": ["x", "ff", "", "F", "dd", "é", "D", "0", "fd", "-f", " f", "f "],
    "-xtype": ["x", "ff", "", "F", "é", "-"],
    "-size": ["x5k", "+-5", " 5", "5kk", "5x", "k", "", "5.5", "++5", "1e3", "5 ", "-", "+", "c5", "5cc", "0x5", "５", "5é"],
    "-links": ["x", "1x", "+-1", "", " 1", "1.5", "0x10", "--1", "+", "-", "1 ", "１"],
    "-inum": ["x", "1x", "+-1", "", "1.5", "++1", "-+1"],
    "-uid": ["x", "root", "+-1", "", "1.0"],
    "-gid": ["x", "root", "+-1", "", "1,2"],
    "-mtime": ["x", "", "+-1", "1x", "--1", "day"],
    "-atime": ["x", "", "+-1", "1d"],
    "-ctime": ["abc", "", "-+1"],
    "-mmin": ["x", "", "+-1", "1m", "++2"],
    "-amin": ["x", "", "+-1"],
    "-cmin": ["x", "", "-+3"],
    "-perm": ["8", "9", "18", "77777", "-8", "/9", "q", "u=q", "u+z", "hello", "-99", "/88888", "u=8", "a=rwxq", "789", "", "-", "/", "u=r,", "-u=rw,g=r,",
              ",u=r", "u=r,,g=r", "/u=w,", "-,"],
    "-regextype": ["foo", "", "posix", "POSIX-BASIC", "emacs ", "perl", "extended", "é"],
    # (all-digit operands that are neither a name nor a possible id: 2^32 and above)
    "-user": ["nosuchuser_verif_xyz", "", "no such user", "4294967296", "18446744073709551615", "99999999999", "9223372036854775808"],
    "-group": ["nosuchgroup_verif_xyz", "", "no such group", "4294967296", "18446744073709551615", "99999999999", "9223372036854775808"],
    "-printf": ["abc%", "%", "%p%", "x%A", "%C", "%T", "abc%5", "%-", "%A", "%p%T"],
    "-newer": ["/nonexistent/verif-ref", "r/missing-ref"],
    "-neweram": ["/nonexistent/verif-ref"],
    "-newercm": ["r/nope"],
    "-anewer": ["/nonexistent/verif-ref"],
    "-cnewer": ["r/missing"],
    # (an empty -newerXt operand is deliberately accepted by this implementation as "today 00:00" and pinned by its own
    #  test-suite, test_find_newer_xy_empty_time_parameter; it is not used as an invalid operand)
    "-newermt": ["garbage date", "2020-13-45 99:99", "2037, jan 01"],
    "-newerat": ["not a time"],
}
# (an unmatched ')' is an ordinary character in POSIX extended syntax — also for GNU regcomp — so it is not used there)
BAD_REGEX = {
    "emacs": ["\\(a", "a\\)", "[a", "\\(a\\|b", "a\\("],
    "posix-basic": ["\\(a", "a\\)", "[a", "[a-"],
    "posix-extended": ["(a", "[a", "(a|b", "((a)", "a(b"],
    "grep": ["\\(a", "a\\)", "[a"],
}


def corrupt(rng, kind):
    """-> expression tokens (after `find r`), ill-formed by construction."""
    v1 = valid_gen(rng)
    v2 = valid_gen(rng)
    if kind == "operator-first":
        return [rng.choice(DASH_BINOPS)] + v1
    if kind == "operator-last":
        return v1 + [rng.choice(BINOPS + NOTS)]
    if kind == "operator-before-close":
        return ["("] + v1 + [rng.choice(BINOPS + NOTS), ")"] + (["-o"] + v2 if rng.random() < 0.3 else [])
    if kind == "operator-after-open":
        return v1 + ["("] + [rng.choice(BINOPS)] + v2 + [")"]
    if kind == "double-operator":
        pair = rng.choice([("-a", "-o"), ("-a", ","), ("-o", "-o"), ("-a", "-a"), ("-o", "-a"), (",", ","), (",", "-o"), ("!", "-a"), ("!", "-o"),
                           ("!", ","), ("-not", "-a"), ("-and", "-or"), ("-or", "-and"), (",", "-a"), ("-o", ","), ("-not", "-or"), ("!", "-and")])
        return v1 + list(pair) + v2
    if kind == "not-before-close":
        return ["("] + v1 + [rng.choice(NOTS), ")"]
    if kind == "unbalanced-open":
        return rng.choice([["("] + v1, v1 + ["("] + v2, ["(", "("] + v1 + [")"], v1 + ["-o", "("] + v2])
    if kind == "unbalanced-close":
        return rng.choice([v1 + [")"], ["("] + v1 + [")", ")"], v1 + [")"] + v2, v1 + ["-o"] + v2 + [")"]])
    if kind == "empty-parens":
        return rng.choice([["(", ")"], v1 + ["(", ")"], v1 + ["(", ")"] + v2, ["(", ")"] + v1, v1 + ["-o", "(", ")"], ["(", "(", ")", ")"],
                           ["!", "(", ")"]])
    if kind == "operand-missing":
        r = rng.random()
        if r < 0.25:
            return [rng.choice(NEED_OPERAND)]                       # the primary is the whole expression
        if r < 0.35:
            return (v1 if rng.random() < 0.5 else []) + ["-fprintf", "out1"]   # first of two operands only
        return v1 + [rng.choice(NEED_OPERAND)]
    if kind == "unknown-primary" and rng.random() < 0.3:
        # unknown primaries that extend a known one, followed by what would be a valid operand for it
        u = rng.choice([["-newermmx", "r"], ["-neweramfoo", "r"], ["-newermm2", "r"], ["-newerac.", "r"], ["-newermtx", "2020-01-01"], ["-namex", "a"],
                        ["-typef", "f"], ["-size+", "1"], ["-permx", "644"], ["-mtime2", "1"], ["-regexx", ".*"], ["-printf0", "x"], ["-anewerx", "r"],
                        ["-cnewer2", "r"], ["-newerx", "r"], ["-maxdepth1", "1"]])
        return rng.choice([v1 + u + v2, u + v1, v1 + u, u])
    if kind == "unknown-primary":
        return rng.choice([v1 + [rng.choice(UNKNOWN)] + v2, [rng.choice([u for u in UNKNOWN if u not in ("-", "--")])] + v1, v1 + [rng.choice(UNKNOWN)]])
    if kind == "bad-operand":
        p = rng.choice(sorted(BAD_OPERANDS))
        return rng.choice([v1 + [p, rng.choice(BAD_OPERANDS[p])] + v2, [p, rng.choice(BAD_OPERANDS[p])] + v1, v1 + [p, rng.choice(BAD_OPERANDS[p])]])
    if kind == "bad-regex":
        t = rng.choice(sorted(BAD_REGEX))
        rx = rng.choice(BAD_REGEX[t])
        test = rng.choice(["-regex", "-iregex"])
        # the syntax is always named right in front: the valid part may contain a -regextype of its own
        # (directly, or inside a parenthesised group that closes before the pattern: -regextype is positional, parentheses do not scope it)
        named = rng.choice([["-regextype", t], ["-regextype", t], ["(", "-regextype", t, ")"], ["(", "-true", "-regextype", t, ")"],
                            ["(", "(", "-regextype", t, ")", "-true", ")"]])
        return v1 + named + [test, rx] + (v2 if rng.random() < 0.5 else [])
    if kind == "bad-exec":
        e = rng.choice(["-exec", "-execdir"])
        bad = rng.choice([[e], [e, common.REC], [e, common.REC, "{}"], [e, common.REC, "x", "{}", "y"], [e, ";"], [e, common.REC, "{}", "{}", "+"],
                          [e, common.REC, "+"], [e, common.REC, "x{}", "+"], [e, common.REC, "{}", "x", "+"], [e, "+"], [e, "{}", "+"]])
        # the unterminated forms must come last (otherwise a later ';' or '{} +' terminates them)
        terminated = bad[-1] in (";", "+") and bad not in ([e, common.REC, "+"], [e, common.REC, "x{}", "+"], [e, common.REC, "{}", "x", "+"], [e, "+"])
        if terminated:
            return v1 + bad + (v2 if rng.random() < 0.5 else [])
        return v1 + bad
    raise ValueError(kind)


CORRUPTIONS = ["operator-first", "operator-last", "operator-before-close", "operator-after-open", "double-operator", "not-before-close",
               "unbalanced-open", "unbalanced-close", "empty-parens", "operand-missing", "unknown-primary", "bad-operand", "bad-regex", "bad-exec"]


def small_tree():
    return [Node("r", "d"), Node("r/a", "f", size=3), Node("r/b", "d"), Node("r/b/x.txt", "f", size=2000), Node("r/b/c", "d"), Node("r/la", "l", target="a"),
            Node("r/e", "f"), Node("out", "d"), Node("out/keep", "f", size=5), Node("r/lo", "l", target="../out")]


def snap(sb):
    s = treegen.snapshot(sb)
    return {k: v for k, v in s.items() if not k.startswith("out1") and not k.startswith("rec.log") and k != ""}


def reject_worker(job):
    k, n, seed = job
    st = Stats()
    rng = common.rng_for(seed, "C11a", k)
    base = common.mkscratch("C11a%d" % k)
    sb = os.path.join(base, "sb")
    wd = os.path.join(base, "w")
    os.makedirs(sb)
    os.makedirs(wd)
    try:
        treegen.build(sb, small_tree())
        before = snap(sb)
        log = os.path.join(base, "rec.log")
        env = common.clean_env({"VERIF_REC_LOG": log})
        BATCH = 150
        allcases = []
        for i in range(n):
            kind = CORRUPTIONS[i % len(CORRUPTIONS)]
            toks = corrupt(rng, kind)
            flags = rng.choice([[], [], [], ["-H"], ["-L"], ["-P"]])
            args = ["find"] + flags + ["r"] + toks
            allcases.append(("a%d" % i, args, kind))

        def run_batch(cases):
            res = common.run_find_inproc([(c, a) for c, a, _ in cases], wd, sb, env=env)
            children = 0
            try:
                with open(log) as f:
                    children = len(f.read().splitlines())
                os.unlink(log)
                try:
                    os.unlink(log + ".n")
                except OSError:
                    pass
            except FileNotFoundError:
                pass
            after = snap(sb)
            return res, children, after

        for b in range(0, len(allcases), BATCH):
            cases = allcases[b:b + BATCH]
            res, children, after = run_batch(cases)
            side_effect = children > 0 or after != before
            for c, args, kind in cases:
                r = res[c]
                rp = {"args": args, "tree": "lib/c11.py small_tree()"}
                st.inc("evaluations")
                st.inc("corruption:" + kind)
                st.add("distinct", tuple(args))
                if r.special or r.panic:
                    st.violate("panic-or-hang", None, {"args": args, "panic": r.panic, "special": r.special}, rp)
                    continue
                problems = []
                if r.code == 0:
                    problems.append("exit status 0")
                if not r.fd2.strip():
                    problems.append("no diagnostic on stderr")
                if r.out or r.fd1:
                    problems.append("output before rejection: %r" % (r.out + r.fd1)[:80])
                if problems:
                    st.violate("not-rejected", None, {"args": args, "corruption": kind, "problems": problems, "exit": r.code, "stderr": r.fd2[-200:]}, rp)
                if r.fd2.strip():
                    st.add("diagnostics", r.fd2.strip().split(b"\n")[0][:60])
            if side_effect:
                # find which vector had the effect: rebuild and run one by one
                for c, args, kind in cases:
                    common.force_rmtree(sb)
                    os.makedirs(sb)
                    treegen.build(sb, small_tree())
                    res1, ch1, after1 = run_batch([(c, args, kind)])
                    if ch1 > 0 or after1 != before:
                        changed = sorted(set(k_ for k_ in set(before) | set(after1) if before.get(k_) != after1.get(k_)))[:5]
                        st.violate("effect-before-rejection", None, {"args": args, "corruption": kind, "children_started": ch1, "changed_entries": changed,
                                                                     "exit": res1[c].code}, {"args": args})
                common.force_rmtree(sb)
                os.makedirs(sb)
                treegen.build(sb, small_tree())
        if k == 0:
            for c, args, kind in allcases[:3]:
                st.sample({"corruption": kind, "args": args})
    finally:
        common.force_rmtree(base)
    return st


# ------------------------------------------------------------------------------------------
# (b) totality

ARBITRARY = ["", " ", "é", "日本", "🙂", "%", "\\", "%é", "\\é", "\\12é", "[", "[[.]", "[[:", "a[[=]", "*****", "[[:alpha:", "[[=a=", "*[[.a.", "[[::", "[[:a:é]",
             "[[.é.", "[[:é", "[[=é=]", "[[:alpha:]é", "[a[:", "[[:]:", "99999999999999999999999999", "-1", "+-5",
             "0x10", "{}", ";", "+", "(", ")", "!", ",", "-", "--", "a" * 300, "\n", "%p%", "%A", "%T", "%Ca", "%-", "%5", "%.3p", "\\0", "\\777", "\\400",
             "\\c", "\\x", "%99999999999999999999p", "%0", "[a-", "[!", "(a", "a)", "a\\{1", "a{1", "\\(", "[[:alpha:]", "**", "a{2,1}", "a\\{2,1\\}",
             "\\", "\\\\", "[]", "[]]", "[^]", "[\\]", "*[", "?\\", "%%%", "%5%", "%-5", "% p", "%#p", "%+p", "%010p", "\\1", "\\18", "\\08x", "%Z", "%z",
             "%AZ", "%A@", "%T+", "%C%", "%Aé", "%é", "18446744073709551615", "18446744073709551616", "9223372036854775808", "-0", "+0", "00", "007",
             "1e9", "١٢", "u=rwx", "u+s,g+s", "a=", "=", "+x", "-x", "/x", "u-", "ugo=rwxXst", "7777", "17777", "-7777", "/0", "-0", "0", "f", "d", "l", "x",
             "emacs", "posix-extended", "grep", "sed", "root", "nobody", "54321", "4294967295", "4294967296", ".", "..", "r", "r/a", "r/missing",
             "/nonexistent", "*a" * 14 + "*b", ".*/\\(a\\|a\\|a\\)*\\(a\\|a\\)*\\(a\\|a\\)*b", "\xff".encode("latin1").decode("latin1"), "a\0b".replace("\0", ""), "-print", "-name", "-exec", "-o", "-a", "-not"]

PRINTF_DIRECTIVES = list("abcdDfFgGhHiklmMnpPsStuUyYZ") + ["A@", "AH", "Ak", "AZ", "AS", "A+", "Aa", "Ab", "Ac", "Ad", "Ay", "AY", "AT", "AX", "Ar", "Ap",
                                                           "C@", "Ck", "CT", "T@", "TH", "TM", "Tj", "TU", "Tw", "TZ", "Ae", "AI", "Al", "Aj", "AV", "Ah", "AD"]


def rand_printf(rng):
    out = []
    for _ in range(rng.randint(1, 6)):
        r = rng.random()
        if r < 0.5:
            d = rng.choice(PRINTF_DIRECTIVES)
            w = rng.choice(["", "", "5", "-5", "0", "-", "20", "-12", " ", "99999999999999999999", "300", "65535", "65536", "-65536", "70000", "100000",
                            # characters that are numeric in Unicode but not ASCII digits, where a width may stand
                            "²", "٣", "-½", "1²", "①", "٣٣", "５", "1５", "-٣", " ²",
                            "0", "'"])
            out.append("%" + w + d)
        elif r < 0.7:
            out.append(rng.choice(["\\n", "\\t", "\\0", "\\\\", "\\101", "\\a", "\\c", "\\é", "\\", "\\9", "\\18", "\\777"]))
        elif r < 0.8:
            out.append(rng.choice(["%", "%%", "%é", "%-", "%5", "%A", "%T", "%Cé", "%²", "%٣", "%-①", "%1½",
                                   # the printf(3) flags this implementation does not know (kept rare: a parser that loops on them costs
                                   # minutes of watchdog time per occurrence)
                                   "%+d", "%#m"] if rng.random() < 0.2 else ["%", "%%", "%-"]))
        else:
            out.append(rng.choice(["x", " ", "é", "日本", ":", "/"]))
    return "".join(out)


def operand_for(rng, prim):
    r = rng.random()
    valid = {
        "-name": ["a", "*a*", "*", "[ab]*", "x.txt", "?", "\\*", "[!a]", "[[:alpha:]]*", "[a-c]"], "-type": list("bcdpfls"), "-xtype": list("bcdpfls"),
        "-size": ["+1k", "-5", "3c", "0", "1M", "+0", "2G", "1w", "5b"], "-perm": ["644", "-u+r", "/222", "u=rw,g=r,o=r", "0", "-0", "/0", "7777", "u+s", "+t"],
        "-regextype": ["emacs", "posix-basic", "posix-extended", "grep", "ed", "sed"], "-regex": [".*a", ".*/b.*", "r/\\(a\\|b\\)", ".*[.]txt", ".*x\\{1,2\\}"],
        "-user": ["root", "nobody", "0", "54321", "65534"], "-group": ["root", "nogroup", "0", "54322"], "-newer": ["r", "r/a", "r/b"],
        "-samefile": ["r/a", "r/b", "r/la", "r/missing"], "-maxdepth": ["0", "1", "2", "10"], "-mindepth": ["0", "1", "2"],
        "-fprint": ["o1", "o2", "/nonexistent/x", "r", "", "/dev/full"], "-fls": ["o3", "r/b", "/dev/full"], "-fprint0": ["o4", "/dev/full"], "-files0-from": ["names0", "-", "missing-list", "r/a"],
        "-fstype": ["tmpfs", "ext4", "proc", ""], "-lname": ["*", "a", "../*"],
        "-newermt": ["2020-01-01", "jan 01, 2025 00:00:01", "jan 01, 2025", "x", "jan 01, ٢٠٢٥", "jan ٠١, 2025", "jan 01, 2025 ٠٠:00:00", "jän 01, 2025",
                     "jan 01, 99999 00:00:00", "feb 30, 2025", "jan 01, 0000", "jan 01, 2025 25:61:61"],
    }
    numeric = ["0", "1", "+1", "-1", "2", "+0", "-0", "5", "100", "54321", "+54321", "65534", "18446744073709551615"]
    if prim in ("-printf",):
        return rand_printf(rng) if r < 0.8 else rng.choice(ARBITRARY)
    if r < 0.55:
        for key, vals in (("-iname", "-name"), ("-path", "-name"), ("-ipath", "-name"), ("-wholename", "-name"), ("-iwholename", "-name"), ("-ilname", "-lname"),
                          ("-iregex", "-regex"), ("-anewer", "-newer"), ("-cnewer", "-newer")):
            if prim == key:
                prim = vals
        if prim in valid:
            return rng.choice(valid[prim])
        if prim.startswith("-newer") and prim.endswith("t"):
            return rng.choice(valid["-newermt"])
        if prim.startswith("-newer"):
            return rng.choice(valid["-newer"])
        return rng.choice(numeric)
    if r < 0.8:
        near = BAD_OPERANDS.get(prim) or BAD_OPERANDS.get("-links")
        return rng.choice(near + numeric)
    return rng.choice(ARBITRARY)


ZERO = ["-print", "-print0", "-ls", "-true", "-false", "-empty", "-delete", "-prune", "-quit", "-readable", "-writable", "-executable", "-nouser",
        "-nogroup", "-follow", "-daystart", "-noleaf", "-depth", "-d", "-mount", "-xdev", "-sorted"]
ONE = ["-printf", "-fprint", "-fprint0", "-fls", "-name", "-iname", "-lname", "-ilname", "-path", "-ipath", "-wholename", "-iwholename", "-regextype", "-regex",
       "-iregex", "-type", "-xtype", "-fstype", "-newer", "-mtime", "-atime", "-ctime", "-amin", "-cmin", "-mmin", "-size", "-inum", "-links", "-samefile",
       "-user", "-uid", "-group", "-gid", "-perm", "-maxdepth", "-mindepth", "-files0-from", "-anewer", "-cnewer", "-neweraa", "-newerac", "-neweram",
       "-newerca", "-newercc", "-newercm", "-newerma", "-newermc", "-newermm", "-newermt", "-newerat", "-newerct", "-newerBm", "-newermB"]


def mostly_valid_vector(rng):
    """Well-formed structure over the WHOLE vocabulary with mostly valid operands, so that evaluation (not just parsing) is reached."""
    def prim():
        r = rng.random()
        if r < 0.3:
            return [rng.choice(ZERO)]
        if r < 0.8:
            p = rng.choice(ONE)
            if rng.random() < 0.9:
                # valid operand: force the first branch of operand_for
                for _ in range(8):
                    v = operand_for(rng, p)
                    if v not in ARBITRARY or rng.random() < 0.1:
                        break
                return [p, v]
            return [p, operand_for(rng, p)]
        if r < 0.86:
            return ["-fprintf", rng.choice(["o5", "o6", "/dev/full"]), rand_printf(rng)]
        e = rng.choice(["-exec", "-execdir"])
        cmd = rng.choice([common.REC, "true", "false", "/nonexistent/cmd", "rm"])
        if cmd == "rm":
            return [e, "rm", "-rf", "{}", rng.choice([";", "+"])]
        return [e, cmd] + [rng.choice(["{}", "x{}", "a", "é"]) for _ in range(rng.randint(0, 2))] + rng.choice([[";"], ["{}", "+"], ["{}", ";"]])

    def expr(d):
        n = rng.randint(1, 4)
        out = []
        for i in range(n):
            if i:
                out += rng.choice([[], [], ["-a"], ["-o"], [","], ["-and"], ["-or"]])
            if rng.random() < 0.2:
                out.append(rng.choice(["!", "-not"]))
            if d < 2 and rng.random() < 0.2:
                out += ["("] + expr(d + 1) + [")"]
            else:
                out += prim()
        return out
    return expr(0)


def rand_vector(rng):
    if rng.random() < 0.55:
        return mostly_valid_vector(rng)
    toks = []
    for _ in range(rng.randint(1, 10)):
        r = rng.random()
        if r < 0.18:
            toks.append(rng.choice(["(", ")", "!", "-not", "-a", "-and", "-o", "-or", ","]))
        elif r < 0.38:
            toks.append(rng.choice(ZERO if rng.random() < 0.9 else ["-help", "-version", "--help"]))
        elif r < 0.8:
            p = rng.choice(ONE)
            toks.append(p)
            if rng.random() < 0.95:
                toks.append(operand_for(rng, p))
        elif r < 0.84:
            toks += ["-fprintf", rng.choice(["o5", "", "r", "/dev/full", "/dev/full"]), rand_printf(rng)]
        elif r < 0.93:
            e = rng.choice(["-exec", "-execdir"])
            cmd = rng.choice([common.REC, "true", "false", "/nonexistent/cmd", "rm", ""])
            if cmd == "rm":
                toks += [e, "rm", "{}", rng.choice([";", "+"])]
            else:
                argsx = [rng.choice(["{}", "x{}", "{}{}", "a", "", "é", "-print", "(", ";x"]) for _ in range(rng.randint(0, 3))]
                term = rng.choice([[";"], ["{}", "+"], ["+"], [], [";"]])
                toks += [e, cmd] + argsx + term
        elif r < 0.97:
            toks.append(rng.choice(UNKNOWN))
        else:
            toks.append(rng.choice(ARBITRARY))
    return toks


def fuzz_tree():
    return [Node("r", "d", uid=NOBODY, gid=NOBODY), Node("r/a", "f", size=3, uid=NOBODY), Node("r/b", "d", uid=NOBODY), Node("r/b/x.txt", "f", size=2000, uid=NOBODY),
            Node("r/b/c", "d", uid=NOBODY), Node("r/la", "l", target="a"), Node("r/ld", "l", target="b"), Node("r/dang", "l", target="nope"),
            Node("r/loop", "l", target="loop"), Node("r/e", "f", uid=NOBODY), Node("r/fifo", "p", uid=NOBODY), Node("r/sock", "s"), Node("r/chr", "c"),
            Node("r/blk", "b"), Node("r/foreign", "f", size=9, uid=54321, gid=54322), Node("r/foreign_dir", "d", uid=54321, gid=54322),
            Node("r/foreign_dir/in", "f", uid=54321, gid=54322), Node("r/suid", "f", mode=0o6755, uid=NOBODY), Node("r/sticky", "d", mode=0o1777, uid=NOBODY),
            Node("r/é 日本", "f", uid=NOBODY), Node("r/b/c/deep", "d", uid=NOBODY), Node("r/b/c/deep/f", "f", uid=NOBODY), Node("r/hl1", "f", uid=NOBODY),
            Node("r/hl2", "h", link_to="r/hl1"), Node("r/noperm", "d", mode=0o000, uid=54321), Node("r/big", "f", size=3 * (1 << 30) + 1, uid=NOBODY),
            Node("r/" + "a" * 60, "f", uid=NOBODY), Node("r/-dash", "f", uid=NOBODY), Node("r/new\nline", "f", uid=NOBODY), Node("names0", "f", content=b"r/a\0r/b\0\0r/missing\0r/dang", uid=NOBODY)]


def build_fuzz_tree(sb):
    treegen.build(sb, fuzz_tree())
    os.chown(sb, NOBODY, NOBODY)


def total_worker(job):
    k, n, seed = job
    st = Stats()
    rng = common.rng_for(seed, "C11b", k)
    base = common.mkscratch("C11b%d" % k)
    os.chmod(base, 0o755)
    sb = os.path.join(base, "sb")
    wd = os.path.join(base, "w")
    os.makedirs(wd)
    os.chown(wd, NOBODY, NOBODY)
    log = os.path.join(wd, "rec.log")
    env = common.clean_env({"VERIF_REC_LOG": log})
    try:
        BATCH = 40
        done = 0
        while done < n:
            if os.path.exists(sb):
                common.force_rmtree(sb)
            os.makedirs(sb)
            build_fuzz_tree(sb)
            cases = []
            for i in range(min(BATCH, n - done)):
                toks = rand_vector(rng)
                flags = rng.choice([[], [], ["-H"], ["-L"], ["-P"], ["--"], ["-O2"]])
                roots = rng.choice([["r"], ["r"], ["r", "r/b"], [], ["r/la"], ["r/dang"], ["missing"], ["r/", "./r"], ["r/foreign_dir", "r/noperm"]])
                # vectors whose first expression token does not start with '-', '(' or '!' would be read as starting points: keep them inside the tree
                if toks and not (toks[0].startswith("-") or toks[0] in ("(", "!")) and toks[0] not in ("", "r", "r/a", ".", "é", "x", "f", "d", "l"):
                    toks = ["-true"] + toks
                args = ["find"] + flags + roots + toks
                cases.append(("b%d" % (done + i), args))
            res = common.run_find_inproc(cases, wd, sb, uid=NOBODY, env=env, per_case_timeout=30)
            for c, args in cases:
                r = res[c]
                st.inc("evaluations")
                st.add("distinct", tuple(args))
                for t in args:
                    if t in ZERO or t in ONE or t in ("-exec", "-execdir", "-fprintf"):
                        st.add("primaries_seen", t)
                if r.special == "SKIP":
                    st.inc("skipped_non_utf8_inproc")
                    continue
                if r.special == "NOTRUN":
                    st.inc("not_run_after_four_confirmed_hangs_in_the_same_batch")
                    continue
                if r.special or r.panic:
                    st.violate("panic" if r.panic and not r.special else ("hang" if r.special == "HANG" else "crash"),
                               panic_sig(r.panic), {"args": args, "panic": r.panic, "special": r.special}, {"args": args, "tree": "lib/c11.py fuzz_tree()", "uid": NOBODY})
                    continue
                st.inc("exit_status:%s" % ("0" if r.code == 0 else "nonzero"))
                if r.fd2.strip():
                    st.add("diagnostics", r.fd2.strip().split(b"\n")[0][:40])
                if b"-delete" in b" ".join(a.encode() for a in args) or "rm" in args:
                    st.inc("vectors_with_removal_action")
            done += len(cases)
        if k == 0:
            st.sample({"args": cases[0][1]})
            st.sample({"args": cases[-1][1]})
    finally:
        common.force_rmtree(base)
    return st


def panic_sig(p):
    return None


def targeted_worker(job):
    """Hand-picked stress shapes for the totality half: entries removed by an earlier action, owners without passwd entries, every
    -printf directive on every file type, non-UTF-8 arguments through the binary."""
    k, seed = job
    st = Stats()
    rng = common.rng_for(seed, "C11t", k)
    base = common.mkscratch("C11t%d" % k)
    os.chmod(base, 0o755)
    sb = os.path.join(base, "sb")
    wd = os.path.join(base, "w")
    os.makedirs(wd)
    os.chown(wd, NOBODY, NOBODY)
    try:
        all_dirs = "".join("%" + d + "|" for d in PRINTF_DIRECTIVES) + "\\n"
        after_remove = [["-ls"], ["-printf", all_dirs], ["-empty"], ["-type", "f"], ["-size", "+0"], ["-perm", "-0"], ["-newer", "r"], ["-user", "root"],
                        ["-nouser"], ["-nogroup"], ["-mtime", "0"], ["-links", "1"], ["-samefile", "r/b"], ["-lname", "*"], ["-xtype", "f"], ["-readable"],
                        ["-fls", "o9"], ["-exec", "true", "{}", ";"], ["-execdir", "true", "{}", "+"], ["-inum", "+0"], ["-fstype", "tmpfs"],
                        ["-printf", "%Y %y %l %s\\n"], ["-delete"], ["-print"], ["-newermm", "r/a"], ["-regex", ".*"], ["-name", "*"]]
        removers = [["-delete"], ["-exec", "rm", "-rf", "{}", ";"], ["-depth", "-delete"], ["-execdir", "rm", "-rf", "{}", ";"]]
        shapes = []
        for rem in removers:
            for aft in after_remove:
                shapes.append(["find", "r"] + rem + aft)
                shapes.append(["find", "r", "-depth"] + rem + aft + ["-o"] + aft)
        for aft in after_remove:
            for flags in ([], ["-L"], ["-H"]):
                shapes.append(["find"] + flags + ["r", "r/dang", "r/la", "r/loop"] + aft)
        # patterns on which a backtracking engine gives up (name of 60 'a's in the tree)
        for t in (["-regex", ".*/\\(a\\|a\\|a\\)*\\(a\\|a\\)*\\(a\\|a\\)*b"], ["-regextype", "posix-extended", "-regex", ".*/(a|a|a)*(a|a)*(a|a)*b"],
                  ["-regextype", "posix-extended", "-iregex", ".*/(a*)*(a*)*b"], ["-name", "*a" * 14 + "*b"], ["-iname", "*a" * 20 + "*b"],
                  ["-path", "*a*" * 12 + "b"], ["-regextype", "grep", "-regex", ".*/\\(a*\\)*\\(a*\\)*b"], ["-lname", "*a*" * 15 + "b"]):
            shapes.append(["find", "r"] + t)
            shapes.append(["find", "r"] + t + ["-o", "-print"])
        mine = [s for i, s in enumerate(shapes) if i % common.NCPU == k]
        for i, args in enumerate(mine):
            if os.path.exists(sb):
                common.force_rmtree(sb)
            os.makedirs(sb)
            build_fuzz_tree(sb)
            r = common.run_find_inproc([("t", args)], wd, sb, uid=NOBODY, env=common.clean_env(), per_case_timeout=30)["t"]
            st.inc("evaluations")
            st.inc("targeted_runs")
            st.add("distinct", tuple(args))
            if r.special or r.panic:
                st.violate("panic" if r.panic and not r.special else "hang-or-crash", None, {"args": args, "panic": r.panic, "special": r.special},
                           {"args": args, "tree": "lib/c11.py fuzz_tree()", "uid": NOBODY})
            if i % 7 == 0 and not (r.special or r.panic):
                # the same through the binary
                if os.path.exists(sb):
                    common.force_rmtree(sb)
                os.makedirs(sb)
                build_fuzz_tree(sb)
                rc, out, err, to = common.run_cmd([common.FIND] + args[1:], cwd=sb, env=common.clean_env(), timeout=60, preexec_fn=common.drop_to(NOBODY))
                st.inc("binary_runs")
                if to or rc in (101, 134, -6, -11, -4, -7, -8):
                    st.violate("binary-panic-or-hang", None, {"args": args, "rc": rc, "timeout": to, "stderr": err[-400:]}, {"args": args, "via": "binary"})
        # faults on the output side (stdout is a full device) and very deep nesting, through the binary
        if k in (4, 5, 6, 7):
            if os.path.exists(sb):
                common.force_rmtree(sb)
            os.makedirs(sb)
            build_fuzz_tree(sb)
            vectors = []
            if k == 4:
                vectors = [(["r", a] if isinstance(a, str) else ["r"] + a, "/dev/full") for a in
                           ("-print", "-print0", ["-printf", "%p %s %u\\n"], "-ls", ["-fprintf", "/dev/full", "%p\\n"], ["-fprint", "/dev/full"],
                            ["-fls", "/dev/full"], ["-print", "-printf", "x", "-ls"], ["-exec", "true", "{}", ";", "-print"])]
                vectors += [([a], "/dev/full") for a in ("-version", "--version", "-help", "--help")] + [(["r", "-version"], "/dev/full")]
            if k == 5:
                for depth in (10, 200, 1000, 5000, 30000):
                    vectors.append((["r"] + ["("] * depth + ["-true"] + [")"] * depth, None))
                    vectors.append((["r"] + ["!"] * depth + ["-true"], None))
                    vectors.append((["r"] + ["(", "-true", "-o"] * depth + ["-false"] + [")"] * depth, None))
            if k == 6:
                for n in (100, 5000, 40000):
                    vectors.append((["r"] + ["-true", "-o"] * n + ["-false"], None))
                    vectors.append((["r"] + ["-true", ","] * n + ["-print"], None))
                    vectors.append((["r"] + ["-name", "a"] * n, None))
            if k == 7:
                vectors = [(["r", "-newermt", d], None) for d in ("jan 01, ٢٠٢٥", "jan ٠١, 2025", "jan 01, 2025 ٠٠:00:00", "jan 01, 99999", "")]
            for argv, out_to in vectors:
                so = open(out_to, "wb") if out_to else subprocess.DEVNULL
                try:
                    p_ = subprocess.run([common.FIND] + argv, cwd=sb, env=common.clean_env(), stdout=so, stderr=subprocess.PIPE, timeout=120,
                                        preexec_fn=common.drop_to(NOBODY))
                    rc, err, to = p_.returncode, p_.stderr, False
                except subprocess.TimeoutExpired:
                    rc, err, to = None, b"", True
                finally:
                    if out_to:
                        so.close()
                st.inc("evaluations")
                st.inc("binary_runs")
                st.inc("output_fault_runs" if out_to else "deep_or_long_expression_runs")
                if to or rc in (101, 134, -6, -11, -4, -7, -8):
                    shown = argv if len(argv) < 12 else argv[:4] + ["... %d tokens ..." % len(argv)] + argv[-2:]
                    st.violate("binary-panic-or-hang", None, {"args": shown, "stdout": out_to, "rc": rc, "timeout": to, "stderr": err[-300:]},
                               {"args": shown, "stdout": out_to, "via": "binary"})
        # faults on the diagnostic side: stderr is a full device. A run that has nothing to diagnose must be unaffected; a run that has
        # something to diagnose cannot deliver it, but must still end with an ordinary non-zero status
        if k == 8:
            if os.path.exists(sb):
                common.force_rmtree(sb)
            os.makedirs(sb)
            build_fuzz_tree(sb)
            for argv, due in ((["r", "-maxdepth", "0", "-print"], False), (["r", "-maxdepth", "0", "-name", "r", "-printf", "%p\\n"], False),
                              (["r", "-maxdepth", "0", "-ls"], False),
                              (["r", "-bogus"], True), (["/nonexistent-verif"], True), (["r", "-maxdepth", "0", "-printf", "%"], True),
                              (["r", "-maxdepth", "0", "-exec", "/nonexistent-verif", ";"], True), (["r", "-newermt", "bogus"], True),
                              (["r", "(", "-print"], True), (["r", "-maxdepth", "0", "-fprint", "/dev/full"], True), (["r", "missing", "-print"], True)):
                with open("/dev/full", "wb") as se:
                    try:
                        p_ = subprocess.run([common.FIND] + argv, cwd=sb, env=common.clean_env(), stdout=subprocess.PIPE, stderr=se, timeout=120,
                                            preexec_fn=common.drop_to(NOBODY))
                        rc, to = p_.returncode, False
                    except subprocess.TimeoutExpired:
                        rc, to = None, True
                st.inc("evaluations")
                st.inc("binary_runs")
                st.inc("unwritable_stderr_runs" + ("(diagnostic due)" if due else "(nothing to diagnose)"))
                if to or rc in (101, 134, -6, -11, -4, -7, -8) or (not due and rc != 0) or (due and rc == 0):
                    # known mechanism: every diagnostic is written with unwrap()/eprintln!, which panic when stderr cannot be written
                    sig = "panic-writing-diagnostic-to-unwritable-stderr" if (due and rc == 101 and not to) else None
                    st.violate("binary-panic-or-hang", sig, {"args": argv, "stderr": "/dev/full", "diagnostic_due": due, "rc": rc, "timeout": to},
                               {"args": argv, "stderr": "/dev/full", "via": "binary"})
        # the environment the time primaries read: time zones whose clocks change at local midnight today (a local midnight that
        # does not exist, or exists twice), far-off offsets, unusable TZ values - with -daystart, ages, dates without a zone, %T
        if k in (9, 10, 11):
            if os.path.exists(sb):
                common.force_rmtree(sb)
            os.makedirs(sb)
            build_fuzz_tree(sb)
            import time as time_
            yd = time_.gmtime().tm_yday - 1
            zones = []
            for off in (0, -13, 11, 5, -9):
                for d0 in (yd - 1, yd, yd + 1):
                    d0 %= 365
                    zones += ["VST%dVDT,%d/0,%d/0" % (off, d0, (d0 + 100) % 365), "VST%dVDT,%d/0,%d/0" % (off, (d0 + 265) % 365, d0),
                              "VST%dVDT,%d/0:30,%d/23:59:59" % (off, d0, (d0 + 1) % 365)]
            zones += ["Europe/Berlin", "America/St_Johns", "Pacific/Apia", "Australia/Lord_Howe", ":bogus", "", "XXX", "<+0330>-3:30", "UTC0", "A", "VST0VDT,0/0",
                      "VST0VDT,J1,J1", "VST25", "VST-25VDT", ":/dev/null", ":/etc/passwd", "/", "VST0VDT,M3.5.0/2,M10.5.0/3", "VST0VDT,M13.9.9"]
            tests = [["-daystart", "-mtime", "0"], ["-daystart", "-mmin", "+5", "-o", "-amin", "-1000000"], ["-daystart", "-ctime", "-1", "-daystart", "-atime", "+0"],
                     ["-newermt", "2026-03-29T02:30:00"], ["-newermt", "2026-10-25 02:30:00"], ["-newermt", "today"], ["-newermt", "yesterday"],
                     ["-newerat", "tomorrow"], ["-mtime", "0", "-printf", "%Tc|%T+|%TZ|%Tz|%T@|%Tx|%TX|%Ac|%Cc|%t\n"], ["-ls"],
                     ["-daystart", "-newermt", "00:00"], ["-used", "0"], ["-daystart", "-used", "+1"]]
            for zi, tz in enumerate(zones):
                if zi % 3 != k - 9:
                    continue
                for targs in tests:
                    argv = ["r"] + targs
                    rc, out, err, to = common.run_cmd([common.FIND] + argv, cwd=sb, env=common.clean_env({"TZ": tz}), timeout=60,
                                                      preexec_fn=common.drop_to(NOBODY))
                    st.inc("evaluations")
                    st.inc("binary_runs")
                    st.inc("runs_under_unusual_time_zones")
                    st.add("time_zones", tz)
                    if to or rc in (101, 134, -6, -11, -4, -7, -8):
                        st.violate("binary-panic-or-hang", None, {"args": argv, "TZ": tz, "rc": rc, "timeout": to, "stderr": err[-400:]},
                                   {"args": argv, "TZ": tz, "via": "binary", "day_of_year": yd})
        # non-UTF-8 arguments (binary only: the library takes &str)
        if k < 4:
            if os.path.exists(sb):
                common.force_rmtree(sb)
            os.makedirs(sb)
            build_fuzz_tree(sb)
            for argv in ([b"\xff"], [b"r", b"-name", b"\xff*"], [b"r", b"-printf", b"\xfe%p\n"], [b"r/\xff\xfe"], [b"r", b"-exec", b"true", b"\xc3", b";"],
                         [b"r", b"-newer", b"\xff"], [b"r", b"-regex", b".*\xe9"]):
                rc, out, err, to = common.run_cmd([os.fsencode(common.FIND)] + argv, cwd=sb, env=common.clean_env(), timeout=60,
                                                  preexec_fn=common.drop_to(NOBODY))
                st.inc("evaluations")
                st.inc("binary_runs")
                st.inc("non_utf8_vectors")
                if to or rc in (101, 134, -6, -11, -4, -7, -8):
                    st.violate("binary-panic-or-hang", None, {"args": [a.decode("latin1") for a in argv], "rc": rc, "timeout": to, "stderr": err[-400:]},
                               {"args_latin1": [a.decode("latin1") for a in argv], "via": "binary"})
    finally:
        common.force_rmtree(base)
    return st


def memcheck_worker(job):
    """Totality vectors that exercise the native regex engine and the hand-written parsers, replayed under valgrind memcheck.
    A crash/abort is a violation; memcheck reports without a crash are advisory."""
    k, n, seed = job
    st = Stats()
    rng = common.rng_for(seed, "C11m", k)
    base = common.mkscratch("C11m%d" % k)
    os.chmod(base, 0o755)
    sb = os.path.join(base, "sb")
    wd = os.path.join(base, "w")
    os.makedirs(wd)
    os.makedirs(sb)
    try:
        build_fuzz_tree(sb)
        lines = []
        pat_prims = ["-name", "-iname", "-path", "-ipath", "-lname", "-regex", "-iregex", "-printf"]
        tries = 0
        while len(lines) < n and tries < n * 40:
            tries += 1
            toks = rand_vector(rng)
            if not any(t in pat_prims for t in toks) or "-delete" in toks or "rm" in toks:
                continue
            if toks and not (toks[0].startswith("-") or toks[0] in ("(", "!")):
                toks = ["-true"] + toks
            args = ["find", rng.choice(["r", "r", "r/b"])] + toks
            lines.append(common.find_case("v%d" % len(lines), args))
        res, rep = common.run_vh_memcheck("find", lines, wd, cwd=sb, extra=["--uid", str(NOBODY)], env=common.clean_env({"VERIF_REC_LOG": os.path.join(wd, "rec.log")}))
        st.inc("memcheck_vectors", rep["answered"])
        st.inc("memcheck_error_reports", rep["errors"])
        for cid, f in res.items():
            if f and f[0] == "PANIC":
                st.violate("panic", None, {"under": "memcheck", "panic": common.unhx(f[1]).decode("utf-8", "replace")}, {"case": cid})
        if rep["timed_out"]:
            st.notes.append("memcheck run timed out (inconclusive for this shard)")
        elif rep["crashed"]:
            st.violate("memcheck-crash", None, {"rc": rep["rc"], "answered": rep["answered"], "cases": rep["cases"], "log": rep["first"][:600]},
                       {"cases": lines[rep["answered"]:rep["answered"] + 2]})
        if rep["errors"]:
            st.notes.append("memcheck reported %d errors (advisory): %r" % (rep["errors"], rep["kinds"]))
    finally:
        common.force_rmtree(base)
    return st


def run(ctx):
    ctx.rule = ("(a) one of 14 corruptions (binary operator first/last/before ')'/after '(', adjacent operators, '!' before ')', unbalanced or empty "
                "parentheses, operand missing, unknown primary, invalid operand for -type -xtype -size numeric tests -perm -regextype -user -group "
                "-printf -newerXY, unbalanced -regex per syntax, malformed -exec) applied to a random valid expression containing printing, "
                "executing and deleting actions; (b) random token vectors over the whole vocabulary with operands from valid values, near misses "
                "and arbitrary strings, run as uid 65534 on a tree with every file type, foreign owners, unreadable directory, ELOOP link, 3GiB "
                "sparse file, hostile names; (c) targeted shapes: every test/action evaluated on entries an earlier action removed, all -printf "
                "directives on all types, non-UTF-8 arguments through the binary; distinct = argument vector")
    ctx.assumptions = ["ill-formedness is by construction (lib/c11.py corrupt())", "creation/truncation of -fprint* output files named before the error is not judged",
                       "a watchdog firing is re-run alone with a 10x budget before it counts as a hang"]
    nw = common.NCPU
    na = ctx.scale(5600, 560000)
    ctx.pmap(reject_worker, [(k, na // nw, ctx.seed) for k in range(nw)])
    nb = ctx.scale(6400, 1000000)
    ctx.pmap(total_worker, [(k, nb // nw, ctx.seed) for k in range(nw)])
    ctx.pmap(targeted_worker, [(k, ctx.seed) for k in range(nw)])
    if common.memcheck_available():
        nm = ctx.scale(160, 20000)
        ctx.pmap(memcheck_worker, [(k, max(4, nm // nw), ctx.seed) for k in range(nw)])
        ctx.require("memcheck_vectors", 20)
        ctx.assumptions.append("valgrind memcheck on the release harness for pattern-bearing vectors: a crash is a violation, reports without a crash are advisory")
    else:
        ctx.stats.notes.append("valgrind not available: memcheck replay skipped")
    for c in CORRUPTIONS:
        ctx.require("corruption:" + c, 20)
    for key in ("targeted_runs", "binary_runs", "non_utf8_vectors", "output_fault_runs", "deep_or_long_expression_runs", "vectors_with_removal_action", "exit_status:0", "exit_status:nonzero"):
        ctx.require(key, 5)
