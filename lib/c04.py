"""C04 — xargs batching: order-preserving, lossless, within -n/-L/-s, maximal; empty input; oversize.

Monitor: recorder log (argv of every child, in order) + exit status + stderr of the real xargs binary, checked against
the invariants of the statement computed from the reference tokenisation of the input."""
import os

import common
import xref
from common import Stats

LENS = [1, 1, 2, 3, 7, 12, 40]


def gen_input(rng):
    """Lines of tokens free of quotes/backslashes; some lines end in a blank (continuation), some are empty."""
    nlines = rng.choice([0, 1, 1, 2, 3, 5, 8, 12])
    out = bytearray()
    for _ in range(nlines):
        if rng.random() < 0.12:
            out += rng.choice([b"\n", b" \n", b"\t\n"])
            continue
        nt = rng.choice([1, 1, 2, 3, 4, 6])
        toks = []
        for _ in range(nt):
            ln = rng.choice(LENS) if rng.random() < 0.93 else rng.choice([80, 150, 300])
            # (à, Å, 丅 and NBSP contain the bytes 0xA0 / 0x85, which are blanks in Latin-1 but not separators here)
            ch = rng.choice(["a", "b", "x", "é", "0", "-", "_", "à", "Å", "丅", "\u00a0", "x\x0b"])
            t = (ch * ln).encode()[:max(1, ln)]
            try:
                t.decode()
            except UnicodeDecodeError:
                t = t[:-1] or b"e"
            toks.append(t)
        line = b""
        if rng.random() < 0.15:
            line += rng.choice([b" ", b"\t", b"  "])
        for i, t in enumerate(toks):
            if i:
                line += rng.choice([b" ", b" ", b"\t", b"  ", b" \t "])
            line += t
        if rng.random() < 0.25:
            line += rng.choice([b" ", b"\t", b"  "])
        out += line + b"\n"
    if out and rng.random() < 0.2:
        out = out[:-1]  # no final newline
    return bytes(out)


def greedy(tokens, n, L, S, base):
    """Expected batches under the statement's rules. Returns (batches, boundaries, outcome) where each boundary is the
    set of limits that stopped the next argument, outcome is None or ('oversize', index_of_token)."""
    batches, bounds = [], []
    cur, size, hard = [], base, 0
    i = 0
    for idx, (tok, h) in enumerate(tokens):
        c = len(tok) + 1
        while True:
            reasons = set()
            if n is not None and len(cur) + 1 > n:
                reasons.add("n")
            if L is not None and hard + 1 > L:
                reasons.add("L")
            if S is not None and size + c > S:
                reasons.add("s")
            if not reasons:
                cur.append(tok)
                size += c
                if h:
                    hard += 1
                break
            if not cur:
                return batches, bounds, ("oversize", idx)
            batches.append(cur)
            bounds.append((reasons, idx))
            cur, size, hard = [], base, 0
    return batches, bounds, (cur,)


def judge(st, case, r):
    opts, initial, data, n, L, S, x, rflag = (case[k] for k in ("opts", "initial", "data", "n", "L", "S", "x", "r"))
    tok = xref.tokenize(data)
    assert tok.in_domain and not tok.error
    tokens = tok.tokens
    cmdcost = len(common.REC.encode()) + 1
    base = cmdcost + sum(len(a) + 1 for a in initial)
    st.inc("evaluations")
    st.add("distinct", (tuple(opts), tuple(initial), data))
    detail = {"argv": ["xargs"] + opts + ["rec"] + [a.decode() for a in initial], "stdin": data, "exit": r.rc, "stderr": r.err[-200:]}
    rp = {"opts": opts, "initial": [a.decode() for a in initial], "stdin": common.hx(data)}
    if r.timed_out or r.rc in (101, 134, -6, -11):
        st.violate("panic-or-hang", None, detail, rp)
        return
    got = []
    for cwd, argv in r.invocations:
        if argv[:len(initial)] != list(initial):
            st.violate("initial-arguments-modified", None, dict(detail, invocation=argv[:6]), rp)
            return
        got.append(argv[len(initial):])
    st.inc("child_invocations", len(got))
    exp, bounds, last = greedy(tokens, n, L, S, base)
    # -- which outcome does the statement demand?
    want_fail = False
    ambiguous_x = False
    nexp_full = None
    if x and (n is not None or L is not None):
        for k, (reasons, idx) in enumerate(bounds):
            if "s" in reasons:
                if reasons == {"s"}:
                    want_fail = True
                    exp = exp[:k + 1]   # batches completed before the overflow (the k-th may or may not have run)
                    bounds = bounds[:k + 1]
                    st.inc("x_overflow_runs")
                    break
                # The batch is already complete by -n/-L: the held-back argument is not *added* to it, so nothing overflows
                # (GNU xargs dispatches a batch the moment -n/-L is reached). The run must go on.
                st.inc("x_with_s_and_other_limit_binding_together")
    if want_fail or ambiguous_x:
        pass
    elif last[0] == "oversize":
        want_fail = True
        st.inc("oversize_argument_runs")
    else:
        final = last[0]
        if tokens:
            exp = exp + [final]
        elif not rflag:
            exp = [[]]
            st.inc("empty_input_runs_without_r")
        else:
            exp = []
            st.inc("empty_input_runs_with_r")
    if ambiguous_x:
        return
    for reasons, _ in bounds:
        for rr in reasons:
            st.inc("batches_closed_by_" + rr)
        if len(reasons) > 1:
            st.inc("batches_closed_by_two_limits_at_once")
    problems = []
    flat = [a for b in got for a in b]
    alltok = [t for t, _ in tokens]
    if want_fail:
        if r.rc != 1:
            problems.append("exit status %r, expected 1" % r.rc)
        if not r.err.strip():
            problems.append("no diagnostic")
        if flat != alltok[:len(flat)]:
            problems.append("executed arguments are not a prefix of the input")
        # every executed batch must be one of the expected leading batches
        if got != exp[:len(got)]:
            problems.append("executed batches %r are not the expected leading batches %r" % (got[:4], exp[:4]))
        elif len(got) < len(exp) - 1:
            problems.append("only %d of the %d batches that precede the failure were run" % (len(got), len(exp)))
    else:
        if r.rc != 0:
            problems.append("exit status %r, expected 0" % r.rc)
        if flat != alltok:
            if sorted(flat) == sorted(alltok):
                problems.append("conservation: order changed")
            elif len(flat) < len(alltok):
                problems.append("conservation: arguments lost or merged (%d delivered, %d in input)" % (len(flat), len(alltok)))
            else:
                problems.append("conservation: arguments added or split (%d delivered, %d in input)" % (len(flat), len(alltok)))
        elif got != exp:
            # conservation holds; classify limit / maximality
            for b in got:
                if n is not None and len(b) > n:
                    problems.append("batch exceeds -n %d: %d arguments" % (n, len(b)))
                if S is not None and base + sum(len(a) + 1 for a in b) > S:
                    problems.append("batch exceeds -s %d: %d bytes" % (S, base + sum(len(a) + 1 for a in b)))
            if not problems:
                problems.append("batches differ from the unique maximal batching (limit -L or maximality): expected sizes %r, observed %r"
                                % ([len(b) for b in exp], [len(b) for b in got]))
    if problems:
        st.violate("batching", None, dict(detail, problems=problems, expected_batches=exp[:6], observed_batches=got[:6]), rp)
    if st.c["evaluations"] % 173 == 1:
        st.sample({"argv": detail["argv"], "stdin": data[:80], "batches": [len(b) for b in got]})


def gen_case(rng):
    while True:
        data = gen_input(rng)
        t = xref.tokenize(data)
        if t.in_domain and not t.error:
            break
    initial = [rng.choice([b"i", b"-x", b"init", b"a b", b"{}", b"II", b"", b""]) for _ in range(rng.choice([0, 0, 1, 2, 3]))]      # ('' is an argument too)
    base = len(common.REC.encode()) + 1 + sum(len(a) + 1 for a in initial)
    n = L = S = None
    opts = []
    k = rng.random()
    if k < 0.3:
        # (values at the top of the range are legal: -n is only an upper bound)
        n = rng.choice([1, 2, 3, 5, 1, 2, 3, 5, 1000, 10 ** 11, 2 ** 59, 2 ** 62, 2 ** 63 - 1, 2 ** 63, 2 ** 64 - 1])
        opts += ["-n", str(n)] if rng.random() < 0.7 else ["--max-args=%d" % n]
    elif k < 0.55:
        L = rng.choice([1, 2, 3, 1, 2, 3, 1, 2, 3, 10 ** 11, 2 ** 62, 2 ** 64 - 1])
        opts += ["-L", str(L)] if rng.random() < 0.7 else ["--max-lines=%d" % L]
    elif k < 0.6:
        # both given: the later one is in force
        n0, L0 = rng.choice([1, 2, 3]), rng.choice([1, 2])
        if rng.random() < 0.5:
            opts += ["-n", str(n0), "-L", str(L0)]
            L = L0
        else:
            opts += ["-L", str(L0), "-n", str(n0)]
            n = n0
    if rng.random() < 0.5:
        toks = [len(t) + 1 for t, _ in t.tokens] or [2]
        S = base + rng.choice([1, 2, 3, 5, 8, 13, 14, 20, 41, 42, 60, 100, max(toks), max(toks) - 1, sum(toks), sum(toks) - 1, sum(toks[:2])])
        S = max(S, base + 1)
        opts += ["-s", str(S)]
    x = rng.random() < 0.3
    if x:
        opts.append("-x")
    r = rng.random() < 0.4
    if r:
        opts.append(rng.choice(["-r", "--no-run-if-empty"]))
    rng.shuffle(opts) if False else None
    return {"opts": opts, "initial": initial, "data": data, "n": n, "L": L, "S": S, "x": x, "r": r}


def worker(job):
    k, nruns, seed = job
    st = Stats()
    rng = common.rng_for(seed, "C04", k)
    wd = common.mkscratch("C04w%d" % k)
    try:
        for i in range(nruns):
            case = gen_case(rng)
            if i % 40 == 0:
                case["data"] = rng.choice([b"", b"\n", b"  \n \n", b"\t"])
            r = xref.run_xargs(wd, case["opts"], case["initial"], case["data"])
            judge(st, case, r)
    finally:
        common.force_rmtree(wd)
    return st


def big_worker(job):
    """Input larger than one command line, with no limit option (or limits far above the input) in force: the only thing that closes
    a batch is the system's own budget. Conservation, order, the unchanged prefix and exit status 0 must hold whatever the size of
    the environment (0..4000 variables) and the stack limit the budget derives from."""
    import resource
    k, nruns, seed = job
    st = Stats()
    rng = common.rng_for(seed, "C04big", k)
    wd = common.mkscratch("C04b%d" % k)
    try:
        for i in range(nruns):
            stack_kib = rng.choice([512, 512, 1024, 8192])
            budget = max(128 * 1024, stack_kib * 1024 // 4)
            nvars = rng.choice([0, 40, 900, 2000, 4000]) if stack_kib < 8192 else rng.choice([0, 4000, 12000])
            env_extra = {"V%d" % j: "" for j in range(nvars)}
            # part of the budget may be taken by a few large variables; the command may be named by a relative path
            pad = int(budget * rng.choice([0, 0, 0.2, 0.4])) if nvars <= 900 else 0
            for j in range(0, pad, 100000):                    # (one environment string may not exceed 128 KiB either)
                env_extra["VERIF_PAD%d" % j] = "p" * min(100000, pad - j)
            cmd = None
            if rng.random() < 0.35:
                lk = os.path.join(wd, "recl")
                if not os.path.lexists(lk):
                    os.symlink(common.REC, lk)
                cmd = [rng.choice(["./recl", "././recl"])]
                st.inc("big_input_runs_with_relative_command_path")
            total = int(budget * rng.uniform(1.3, 3.2))
            toks, size = [], 0
            dist = rng.choice(["tiny", "short", "mixed"])
            while size < total:
                ln = {"tiny": 1, "short": rng.randint(1, 12), "mixed": rng.choice([1, 2, 7, 40, 300, 2000])}[dist]
                t = bytes(rng.choice(b"abcxyz019_") for _ in range(ln)) if ln < 50 else (b"%d-" % len(toks)) + b"y" * ln
                toks.append(t)
                size += ln + 1
            per_line = rng.choice([1, 1, 5, 50])
            data = b"".join(b" ".join(toks[j:j + per_line]) + b"\n" for j in range(0, len(toks), per_line))
            opts = rng.choice([[], [], ["-n", str(len(toks) + 5)], ["-L", str(len(toks) + 5)], ["-x"], ["-r"],
                               ["-s", str(rng.choice([budget * 4, 50000000, 1 << 31, 1 << 63, (1 << 63) + 5, (1 << 64) - 1]))]])   # a legal -s far above what the system allows
            initial = rng.choice([[], [b"init"], [b"a", b"b c"]])
            lim = stack_kib * 1024

            def pre():
                resource.setrlimit(resource.RLIMIT_STACK, (lim, resource.RLIM_INFINITY))
            r = xref.run_xargs(wd, opts, initial, data, env_extra=env_extra, preexec_fn=pre, timeout=300, cmd=cmd)
            st.inc("evaluations")
            st.inc("big_input_runs")
            st.add("distinct", ("big", stack_kib, nvars, dist, tuple(opts), len(toks)))
            got = []
            ok_prefix = True
            for _, argv in r.invocations:
                if argv[:len(initial)] != initial:
                    ok_prefix = False
                got += argv[len(initial):]
            st.inc("child_invocations", len(r.invocations))
            if len(r.invocations) > 1:
                st.inc("big_input_runs_split_by_the_system_limit")
            if nvars >= 900:
                st.inc("big_input_runs_with_hundreds_of_environment_variables")
            if got != toks or not ok_prefix or r.rc != 0 or r.timed_out:
                first = next((j for j, (a_, b_) in enumerate(zip(got, toks)) if a_ != b_), min(len(got), len(toks)))
                st.violate("batching", None, {"case": "input larger than one command line, no binding limit option", "opts": opts,
                                              "stack_limit_kib": stack_kib, "environment_variables": nvars, "environment_padding_bytes": pad,
                                              "command": cmd or "absolute path", "arguments": len(toks),
                                              "delivered": len(got), "first_difference_at": first, "exit": r.rc, "stderr": r.err[-200:],
                                              "invocations": len(r.invocations), "prefix_unchanged": ok_prefix},
                           {"generator": "lib/c04.py big_worker", "seed": seed, "k": k, "i": i})
    finally:
        common.force_rmtree(wd)
    return st


def self_check():
    t = [(b"a", False), (b"b", True), (b"c", True), (b"dd", True)]
    b, bo, last = greedy(t, 2, None, None, 10)
    assert b == [[b"a", b"b"]] and last == ([b"c", b"dd"],), (b, last)
    b, bo, last = greedy(t, None, 1, None, 10)
    assert b == [[b"a", b"b"], [b"c"]] and last == ([b"dd"],)
    b, bo, last = greedy(t, None, None, 14, 10)
    assert b == [[b"a", b"b"], [b"c"]] and bo[0][0] == {"s"} and last == ([b"dd"],), (b, bo, last)
    b, bo, last = greedy(t, None, None, 12, 10)
    assert last[0] == "oversize"


def run(ctx):
    ctx.rule = ("random token sequences (lengths 1..40 and occasional 80..300) arranged in lines with blanks, tabs, trailing "
                "blanks, empty lines; 0-3 initial arguments; -n/-L/-s (values chosen so that each limit binds, also two at "
                "once), -x, -r; empty inputs; inputs of 1.3-3.2 times the system's budget with no binding limit option under stack limits "
                "512 KiB-8 MiB and 0-12000 environment variables; through the real xargs binary with the recorder as command; "
                "distinct = (options, initial arguments, input bytes)")
    ctx.assumptions = ["reference tokenizer lib/xref.py", "inputs free of quotes/backslashes (C05 owns those)",
                       "with -x, a batch that is already complete by -n/-L is not an -s overflow even if the next argument would not have fitted into it"]
    try:
        self_check()
    except AssertionError as e:
        raise common.Inconclusive("self-check failed: %r" % (e,))
    if ctx.replay:
        import json
        rp = json.load(open(ctx.replay))["replay"]
        wd = ctx.scratch()
        r = xref.run_xargs(wd, rp["opts"], [a.encode() for a in rp["initial"]], bytes.fromhex(rp["stdin"]))
        print("exit", r.rc, "stderr", r.err, "invocations", r.invocations)
        raise common.Inconclusive("replay shown above")
    nw = common.NCPU
    n = ctx.scale(3200, 480000)
    ctx.pmap(worker, [(k, n // nw, ctx.seed) for k in range(nw)])
    ctx.pmap(big_worker, [(k, ctx.scale(3, 40), ctx.seed) for k in range(nw)])
    ctx.require("big_input_runs_split_by_the_system_limit", 10)
    ctx.require("big_input_runs_with_hundreds_of_environment_variables", 5)
    for key in ("batches_closed_by_n", "batches_closed_by_L", "batches_closed_by_s", "batches_closed_by_two_limits_at_once",
                "oversize_argument_runs", "x_overflow_runs", "empty_input_runs_without_r", "empty_input_runs_with_r"):
        ctx.require(key, 3)
