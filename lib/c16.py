"""C16 — -printf / -fprintf render escapes, %%, directives, width and justification faithfully.

Monitor: bytes captured from the real find (in-process find_main; binary sample; -fprintf files read back) for
`find [-P|-H|-L] ROOT... -sorted -print -printf FMT` are compared with an independent renderer working from
os.lstat / os.stat / os.readlink records and plain string operations on the path text. Because -print runs in front of
-printf in the same run, `%p = what -print prints` is checked by the same comparison; `%H + '/' + %P = %p` is checked
as a separate oracle-free identity."""
import os
import stat

import common
import refwalk
import treegen
from common import Stats
from treegen import Node

ESCAPES = {"a": b"\x07", "b": b"\x08", "f": b"\x0c", "n": b"\n", "r": b"\r", "t": b"\t", "v": b"\x0b", "\\": b"\\", "0": b"\0"}
DIRECTIVES = "pfhHPdsniUGmyYl"
LIT_PIECES = ["x", " ", ":", "abc", "-", "_", "=", "[", "]", "é", "日本", "🙂", "/", ".", ",", "#", "@", "'", '"', "{}", "$", "~", "(", ")", "ü"]


def gen_format(rng):
    """Returns list of pieces: ('lit', str) | ('esc', str) | ('pct',) | ('dir', letter, left, width)."""
    pieces = []
    for _ in range(rng.randint(1, 8)):
        r = rng.random()
        if r < 0.3:
            pieces.append(("lit", rng.choice(LIT_PIECES)))
        elif r < 0.42:
            k = rng.choice(list("abfnrtv\\") + ["0"])
            pieces.append(("esc", k))
        elif r < 0.5:
            n = rng.choice([1, 7, 8, 9, 10, 32, 33, 65, 100, 126, 127, rng.randrange(1, 128)])
            pieces.append(("esc", "%03o" % n))
        elif r < 0.56:
            pieces.append(("pct",))
        else:
            d = rng.choice(DIRECTIVES)
            left = rng.random() < 0.35
            width = rng.choice([None, None, None, 0, 1, 2, 3, 5, 8, 12, 20, 40, rng.randrange(41, 400), rng.choice([63, 64, 65, 66, 127, 128, 129, 255, 256, 257, 1000, 4097])])
            # one width in six is spelled with leading zeros (%05d, %-08s): still a minimum width of that many columns
            zeros = rng.choice([1, 1, 2]) if width is not None and rng.random() < 0.17 else 0
            pieces.append(("dir", d, left, width, zeros))
    return pieces


def format_text(pieces):
    out = []
    prev_nul = False
    for p in pieces:
        if p[0] == "lit":
            s = p[1]
        elif p[0] == "esc":
            s = "\\" + p[1]
        elif p[0] == "pct":
            s = "%%"
        else:
            s = "%" + ("-" if p[2] else "") + ("" if p[3] is None else "0" * (p[4] if len(p) > 4 else 0) + str(p[3])) + p[1]
        out.append(s)
    return "".join(out)


def well_formed(pieces):
    """'\\0' must not be followed by a digit (it would read as \\NNN); a literal digit must not follow a width-less '%'."""
    for a, b in zip(pieces, pieces[1:]):
        if a == ("esc", "0") and b[0] == "lit" and b[1][:1].isdigit():
            return False
    return True


def type_letter(mode):
    for f, c in ((stat.S_ISREG, "f"), (stat.S_ISDIR, "d"), (stat.S_ISLNK, "l"), (stat.S_ISFIFO, "p"), (stat.S_ISSOCK, "s"),
                 (stat.S_ISCHR, "c"), (stat.S_ISBLK, "b")):
        if f(mode):
            return c
    return "?"


class NotJudged(Exception):
    pass


def last_component(p):
    s = p.rstrip("/")
    if s == "":
        return "/"
    return s.rsplit("/", 1)[-1]


def dir_part(p):
    if "//" in p:
        raise NotJudged("%h with //")
    s = p.rstrip("/")
    if s == "":
        raise NotJudged("%h of /")
    if "/" not in s:
        return "."
    h = s.rsplit("/", 1)[0]
    if h == "":
        raise NotJudged("%h directly below /")
    return h


def directive_value(d, e, mode, sb, h_override=None):
    """Value (str) of directive d for refwalk.Entry e; raises NotJudged where the statement does not decide."""
    p = e.path
    rec = e.rec
    if d == "p":
        return p
    if d == "f":
        if p.rstrip("/").endswith("/.") or p.rstrip("/").endswith("/..") or p in ("..",) or (p.endswith("/") and p.rstrip("/") in (".", "..")):
            raise NotJudged("%f of dot component")
        return last_component(p)
    if d == "h":
        if p.rstrip("/").endswith("/.") or p.rstrip("/").endswith("/.."):
            raise NotJudged("%h of dot component")
        return dir_part(p)
    if d == "H":
        return e.root if h_override is None else h_override
    if d == "P":
        if e.depth == 0:
            return ""
        r = e.root
        rest = p[len(r):]
        return rest[1:] if rest.startswith("/") and not r.endswith("/") else rest
    if d == "d":
        return str(e.depth)
    if d == "s":
        return str(rec.st_size)
    if d == "n":
        return str(rec.st_nlink)
    if d == "i":
        return str(rec.st_ino)
    if d == "U":
        return str(rec.st_uid)
    if d == "G":
        return str(rec.st_gid)
    if d == "m":
        return "%o" % stat.S_IMODE(rec.st_mode)
    if d == "y":
        return type_letter(rec.st_mode)
    if d == "Y":
        if mode != "P":
            raise NotJudged("%Y under -H/-L")
        if stat.S_ISLNK(e.lst.st_mode):
            if e.dangling:
                raise NotJudged("%Y of dangling link")
            return type_letter(e.st.st_mode)
        return type_letter(e.lst.st_mode)
    if d == "l":
        if stat.S_ISLNK(e.lst.st_mode):
            if mode != "P" and not e.dangling and e.follow:
                raise NotJudged("%l of a link the follow mode resolves")
            return os.readlink(os.path.join(sb, p))
        return ""
    raise ValueError(d)


def render(pieces, e, mode, sb, h_override=None):
    """-> (bytes, judged_mask) where a not-judged directive contributes a wildcard marker."""
    out = []
    for pc in pieces:
        if pc[0] == "lit":
            out.append(("b", pc[1].encode()))
        elif pc[0] == "esc":
            k = pc[1]
            if len(k) == 3:
                out.append(("b", chr(int(k, 8)).encode("utf-8")))
            else:
                out.append(("b", ESCAPES[k]))
        elif pc[0] == "pct":
            out.append(("b", b"%"))
        else:
            _, d, left, width = pc[:4]
            zeros = pc[4] if len(pc) > 4 else 0
            try:
                v = directive_value(d, e, mode, sb, h_override)
            except NotJudged:
                # (bounded by what the value can possibly be: some rendering of the path or of the link's target)
                longest = len(os.fsencode(e.path)) + len(sb) + 8
                if stat.S_ISLNK(e.lst.st_mode):
                    try:
                        longest = max(longest, len(os.fsencode(os.readlink(os.path.join(sb, e.path)))) + 8)
                    except OSError:
                        pass
                out.append(("any", width or 0, (width or 0) + longest))   # (padding may count characters: bytes <= width + len)
                continue
            if d == "m":
                # leading zeros not judged: compare numerically
                out.append(("octal", int(v, 8), left, width))
                continue
            if width is not None and len(v) < width:
                if not v.isascii():
                    # the statement does not say in which unit the minimum width counts a value with multi-byte characters: this
                    # implementation counts characters, C printf (GNU find) bytes. Either is accepted - nothing else is.
                    vb = v.encode("utf-8", "surrogateescape")
                    pad_c = " " * (width - len(v))
                    pad_b = " " * max(0, width - len(vb))
                    alts = [(vb + pad_c.encode()) if left else (pad_c.encode() + vb),
                            (vb + pad_b.encode()) if left else (pad_b.encode() + vb)]
                    if zeros and not left:
                        alts += [pad_c.replace(" ", "0").encode() + vb, pad_b.replace(" ", "0").encode() + vb]
                    out.append(("alt", alts))
                    continue
                if zeros and not left:
                    # a leading 0 is printf(3)'s zero-fill flag: this implementation fills with blanks, C fills numbers with
                    # zeros - the statement fixes the width, not the fill character of this spelling; both are accepted
                    out.append(("alt", [(c * (width - len(v)) + v).encode("utf-8", "surrogateescape") for c in " 0"]))
                    continue
                v = v + " " * (width - len(v)) if left else " " * (width - len(v)) + v
            out.append(("b", v.encode("utf-8", "surrogateescape")))
    return out


def match_stream(actual, pos, chunks, terminator):
    """Match chunks against actual starting at pos; afterwards `terminator` must follow (None = end of output).
    ('any', minimum) matches any (bounded) stretch of at least `minimum` bytes; ('octal', value, left, width) a number compared numerically.
    Returns the position after the chunks, or None."""
    if not chunks:
        if terminator is None:
            return pos if pos == len(actual) else None
        return pos if actual.startswith(terminator, pos) else None
    c = chunks[0]
    rest = chunks[1:]
    if c[0] == "b":
        if not actual.startswith(c[1], pos):
            return None
        return match_stream(actual, pos + len(c[1]), rest, terminator)
    if c[0] == "alt":
        for b in c[1]:
            if actual.startswith(b, pos):
                r = match_stream(actual, pos + len(b), rest, terminator)
                if r is not None:
                    return r
        return None
    if c[0] == "octal":
        _, val, left, width = c
        j = pos
        if not left:
            while actual[j:j + 1] == b" ":
                j += 1
        k = j
        while actual[k:k + 1] != b"" and actual[k:k + 1] in b"01234567":
            k += 1
        for end in range(k, j, -1):          # the digits may run into literal digits of the next chunk
            if int(actual[j:end], 8) != val:
                continue
            e2 = end
            if left and width is not None:
                while e2 - pos < width and actual[e2:e2 + 1] == b" ":
                    e2 += 1
            if width is not None and e2 - pos < width:
                continue
            if (width is None or end - j >= width) and j != pos:
                continue                      # padding although none was due
            r = match_stream(actual, e2, rest, terminator)
            if r is not None:
                return r
        return None
    # wildcard
    lo = c[1] if len(c) > 1 else 0            # a padded field is at least `width` characters, hence bytes, long
    hi = c[2] if len(c) > 2 else lo + 600
    for ext in range(lo, hi + 1):
        if pos + ext > len(actual):
            break
        r = match_stream(actual, pos + ext, rest, terminator)
        if r is not None:
            return r
    return None


def build_tree(rng, sb):
    nodes = [Node("r", "d"), Node("r/sub", "d"), Node("r/sub/deep", "d"), Node("r/sub/deep/f", "f", size=5), Node("r/f0", "f", size=0),
             Node("r/f1", "f", size=1234, mode=0o4755), Node("r/f2", "f", size=7, mode=0o1640, uid=54321, gid=54322),
             Node("r/f3", "f", size=70000, mode=0o2600, uid=1, gid=65534), Node("r/dir1777", "d", mode=0o1777), Node("r/fifo", "p"),
             Node("r/sock", "s"), Node("r/chr", "c"), Node("r/blk", "b"), Node("r/hl1", "f", size=3), Node("r/hl2", "h", link_to="r/hl1"),
             Node("r/hl3", "h", link_to="r/hl1"), Node("r/l_f1", "l", target="f1"), Node("r/l_sub", "l", target="sub"),
             Node("r/l_dang", "l", target="nowhere/x"), Node("r/l_fifo", "l", target="fifo"), Node("r/sub/l_up", "l", target="../f2"),
             Node("r/sub/é ü", "f", size=2), Node("r/sub/日本", "d"), Node("r/sub/日本/x", "f", size=9), Node("r/sub/sp ace", "f", size=1),
             # values with a newline followed by more than a stdio buffer's worth of bytes (a link target; a path below a directory
             # whose name has a newline): on real standard output they pass through a line-buffered writer in several pieces
             Node("r/l_long", "l", target="t\n" + ("y" * 200 + "/") * 7 + "z"), Node("r/nl\nd", "d"),
             Node("r/nl\nd/" + "p" * 200, "d"), Node("r/nl\nd/" + "p" * 200 + "/" + "q" * 220, "d"),
             Node("r/nl\nd/" + "p" * 200 + "/" + "q" * 220 + "/" + "s" * 250, "d"),
             Node("r/nl\nd/" + "p" * 200 + "/" + "q" * 220 + "/" + "s" * 250 + "/" + "t" * 250, "d"),
             Node("r/nl\nd/" + "p" * 200 + "/" + "q" * 220 + "/" + "s" * 250 + "/" + "t" * 250 + "/" + "u" * 250, "f", size=4),
             Node("lr", "l", target="r/sub"), Node("lf", "l", target="r/f1"), Node("ldang", "l", target="r/none"), Node("file", "f", size=11, mode=0o604)]
    treegen.build(sb, nodes)
    return nodes


ROOT_SETS = [["r"], ["./r"], ["r/"], ["."], ["ABS/r"], ["r/sub"], ["./r/sub/"], ["lr"], ["lf"], ["ldang"], ["file"], ["r/f1", "r/sub"],
             ["lr/"], ["./lr"], ["ABS/r/"], ["r/sub/deep", "lf", "r/"], ["./"], ["r//"], ["./r/sub//deep"]]


def worker(job):
    k, nfmt, seed, quick = job
    st = Stats()
    rng = common.rng_for(seed, "C16", k)
    base = common.mkscratch("C16w%d" % k)
    sb = os.path.join(base, "sb")
    wd = os.path.join(base, "w")
    os.makedirs(sb)
    os.makedirs(wd)
    try:
        build_tree(rng, sb)
        # a mount point below the starting point (every other worker): its directory entry in the parent carries the inode
        # number of the covered directory, lstat() that of the mounted root - %i is the latter.
        os.mkdir(os.path.join(sb, "r", "mnt"))
        if k % 2 == 0:
            import subprocess
            if subprocess.run(["mount", "-t", "tmpfs", "-o", "size=64k", "none", os.path.join(sb, "r", "mnt")], capture_output=True).returncode == 0:
                st.inc("trees_with_a_mount_point")
                with open(os.path.join(sb, "r", "mnt", "inside"), "w") as f:
                    f.write("x")
            else:
                st.inc("mount_not_permitted")
        walks = {}
        cases, meta = [], {}
        for i in range(nfmt):
            pieces = gen_format(rng)
            if not well_formed(pieces):
                continue
            fmt = format_text(pieces)
            mode = rng.choice("PPHL")
            roots = [r.replace("ABS", sb) for r in rng.choice(ROOT_SETS)]
            key = (mode, tuple(roots))
            if key not in walks:
                ents, w = refwalk.walk_list(roots, mode, 0, None, False, True, sb)
                walks[key] = (ents, w)
            via = "printf"
            args = ["find", "-" + mode] + roots + ["-sorted", "-print", "-printf", fmt]
            if rng.random() < 0.12:
                via = "fprintf"
                args = ["find", "-" + mode] + roots + ["-sorted", "-fprintf", os.path.join(wd, "out_%d.txt" % i), "X" + fmt]
            cid = "f%d" % i
            cases.append((cid, args))
            meta[cid] = (pieces, fmt, mode, roots, via, args)
        res = common.run_find_inproc(cases, wd, sb)
        nbad = 0
        bin_ids = set(rng.sample(sorted(meta), min(len(meta), max(2, len(meta) // 25))))
        for cid, (pieces, fmt, mode, roots, via, args) in meta.items():
            r = res[cid]
            ents, w = walks[(mode, tuple(roots))]
            rp = {"args": args, "tree": "lib/c16.py build_tree()"}
            if r.special or r.panic:
                st.violate("panic-or-hang", None, {"args": args, "panic": r.panic, "special": r.special}, rp)
                continue
            outs = []
            if via == "fprintf":
                fp = args[args.index("-fprintf") + 1]
                try:
                    with open(fp, "rb") as f:
                        outs.append(("fprintf", f.read()))
                    os.unlink(fp)
                except OSError:
                    st.violate("fprintf-no-file", None, {"args": args, "stderr": r.fd2[-200:]}, rp)
                    continue
            else:
                outs.append(("inproc", r.out))
                if cid in bin_ids:
                    rc, out, err, to = common.run_cmd([common.FIND] + args[1:], cwd=sb, env=common.clean_env(), timeout=60)
                    st.inc("binary_runs")
                    if to or rc in (101, 134, -6, -11):
                        st.violate("panic-or-hang", None, {"args": args, "rc": rc, "stderr": err[-300:]}, rp)
                        continue
                    outs.append(("binary", out))
            st.inc("formats")
            st.add("distinct", fmt)
            st.add("root_spellings", tuple(r.replace(sb, "ABS") for r in roots))
            for pc in pieces:
                if pc[0] == "dir":
                    st.add("cells", (pc[1], mode, pc[2], pc[3] is not None))
                    if len(pc) > 4 and pc[4]:
                        st.inc("widths_spelled_with_leading_zeros")
                    st.inc("directive:%" + pc[1])
                elif pc[0] == "esc":
                    st.inc("escapes")
            for vname, actual in outs:
                pos = 0
                bad = None
                for idx, e in enumerate(ents):
                    chunks = []
                    if vname == "fprintf":
                        chunks.append(("b", b"X"))
                    else:
                        chunks.append(("b", os.fsencode(e.path) + b"\n"))
                    chunks += render(pieces, e, mode, sb)
                    nxt = None
                    if idx + 1 < len(ents):
                        nxt = b"X" if vname == "fprintf" else os.fsencode(ents[idx + 1].path) + b"\n"
                    st.inc("evaluations")
                    if any(c[0] == "any" for c in chunks):
                        st.inc("renderings_with_unjudged_directive")
                    np_ = match_stream(actual, pos, chunks, nxt)
                    if np_ is None and e.root.endswith("/") and e.depth >= 1 and any(pc[0] == "dir" and pc[1] == "H" for pc in pieces):
                        # known mechanism: %H is derived from the entry's path (ancestors().nth(depth)), which cannot tell
                        # 'r/' from 'r'. Accept exactly that rendering, report it under its signature, and go on.
                        alt = chunks[:1] + render(pieces, e, mode, sb, h_override=(e.root.rstrip("/") or "/"))
                        np2 = match_stream(actual, pos, alt, nxt)
                        if np2 is not None:
                            st.violate("render-mismatch", "percent-H-root-with-trailing-slash",
                                       {"entry": e.path, "root": e.root, "format": fmt, "mode": "-" + mode, "via": vname,
                                        "expected_H": e.root, "observed_H": e.root.rstrip("/") or "/"}, rp)
                            pos = np2
                            continue
                    if np_ is None:
                        exp = b"".join(c[1] if c[0] == "b" else (b"<%o>" % c[1] if c[0] == "octal" else b"<?>") for c in chunks)
                        bad = {"entry": e.path, "depth": e.depth, "root": e.root, "expected": exp[:300], "observed": actual[pos:pos + len(exp) + 40][:340]}
                        break
                    pos = np_
                if bad is None and pos != len(actual) and not ents:
                    bad = {"entry": None, "expected": b"<end of output>", "observed": actual[pos:pos + 200]}
                if bad:
                    st.violate("render-mismatch", None, dict(bad, format=fmt, mode="-" + mode, roots=roots, via=vname, stderr=r.fd2[-200:]), rp)
                    nbad += 1
            if nbad >= 40:
                break                         # a tree that is wrong everywhere: enough witnesses (a failed match is the expensive case)
        # identity runs (no oracle): %p\0%H\0%P\0 per entry
        for mode in "PHL":
            for roots in ROOT_SETS:
                roots = [r_.replace("ABS", sb) for r_ in roots]
                args = ["find", "-" + mode] + roots + ["-sorted", "-printf", "%p\\0%H\\0%P\\0%d\\0"]
                r = common.run_find_inproc([("i", args)], wd, sb)["i"]
                if r.special or r.panic:
                    st.violate("panic-or-hang", None, {"args": args, "panic": r.panic}, {"args": args})
                    continue
                f = r.out.split(b"\0")[:-1]
                if len(f) % 4:
                    st.violate("identity-garbled", None, {"args": args}, {"args": args})
                    continue
                for j in range(0, len(f), 4):
                    p, H, P, d = f[j:j + 4]
                    st.inc("identity_evaluations")
                    if int(d) == 0:
                        ok = P == b"" and H == p
                    elif H.endswith(b"/"):
                        continue
                    else:
                        ok = H + b"/" + P == p
                    if not ok and not any(x.endswith("/") for x in roots):
                        st.violate("recomposition", None, {"args": args, "p": p, "H": H, "P": P, "depth": int(d)}, {"args": args})
        if k == 0:
            st.sample({"format": cases[0][1][-1], "args": cases[0][1][:6]})
            st.sample({"format": cases[-1][1][-1]})
    finally:
        common.force_rmtree(base)
    return st


def self_check():
    pieces = [("lit", "a"), ("esc", "n"), ("pct",), ("dir", "d", True, 3), ("esc", "101"), ("dir", "p", False, None)]
    if format_text(pieces) != "a\\n%%%-3d\\101%p":
        raise common.Inconclusive("format_text self-check failed: %r" % format_text(pieces))
    if dir_part("r/a") != "r" or dir_part("r") != "." or last_component("r/") != "r" or last_component("/") != "/":
        raise common.Inconclusive("path helper self-check failed")
    if match_stream(b"r\n 755x", 0, [("b", b"r\n"), ("octal", 0o755, False, 4), ("b", b"x")], None) != 7:
        raise common.Inconclusive("matcher self-check failed")
    if match_stream(b"r\n0755 |", 0, [("b", b"r\n"), ("octal", 0o755, True, 5), ("b", b"|")], None) != 8:
        raise common.Inconclusive("matcher self-check (left) failed")


def run(ctx):
    ctx.rule = ("format strings of 1-8 pieces from literal text (ASCII, multi-byte), escapes \\a \\b \\f \\n \\r \\t \\v \\\\ \\0 \\NNN (<=177), %%, "
                "directives p f h H P d s n i U G m y Y l with optional '-' flag and width 0-4097; entries of every type and depth incl. links "
                "(to file, dir, fifo, dangling), setuid/setgid/sticky modes, foreign owners, hard links, multi-byte names; 19 starting-point "
                "sets (r, ./r, r/, ., absolute, r/sub, ./r/sub/, link to dir, link to file, dangling link, file, several roots, r//, ./); "
                "modes -P -H -L; evaluations = (format, entry) renderings; distinct = format string")
    ctx.assumptions = ["independent renderer lib/c16.py over os.lstat/os.stat/os.readlink (record per follow mode as in C13)",
                       "%m compared numerically; \\NNN <= 177; width of a non-ASCII value judged in characters or in bytes (either accepted); %Y only under -P and not for dangling links; %l not "
                       "for links the follow mode resolves; %h not for paths containing // or directly below /; %f/%h not for paths ending in /. or /..",
                       "time, name (%u %g), %b %k %S %D %F %M directives are C11's (totality) business"]
    self_check()
    nw = common.NCPU
    n = ctx.scale(3200, 4800000)
    per = min(n // nw, 12000)                 # bounded batches: a worker holds its cases and their output in memory
    ctx.pmap(worker, [(k, per, ctx.seed, ctx.quick) for k in range(max(nw, n // per))])
    if ctx.stats.c.get("mount_not_permitted"):
        ctx.stats.notes.append("mounting a tmpfs inside the sandbox is not permitted here: %i of a mount point was not observed")
    for d in DIRECTIVES:
        ctx.require("directive:%" + d, 20)
    for key in ("escapes", "binary_runs", "identity_evaluations"):
        ctx.require(key, 10)
