"""C06 — xargs never builds a command line the operating system rejects.

Monitors: (1) strace execve event log of xargs and its children: any `execve(...) = -1 E2BIG` refutes the property;
(2) xargs exit status (126 / "Argument list too long"); (3) compact recorder log: every argument delivered exactly
once, in order (running CRC chain); (4) for an over-long single argument: exit 1, diagnostic, never handed to exec."""
import os
import sys
import re
import resource
import subprocess

import common
import xref
from common import Stats

MAX_ARG_STRLEN = 32 * os.sysconf("SC_PAGE_SIZE")   # includes the terminating NUL
KIB, MIB = 1024, 1024 * 1024


def gen_args(rng, count, dist):
    if dist == "1":
        return [bytes([97 + (i % 26)]) for i in range(count)]
    if dist == "2":
        return [b"%c%c" % (97 + i % 26, 97 + (i // 26) % 26) for i in range(count)]
    if dist == "utf8-200":
        # 100 two-byte characters per argument: byte cost is twice the character count
        return [("%04d" % (i % 10000) + "é" * 98).encode() for i in range(count)]
    if dist == "999":
        return [b"%06d" % i + b"q" * 993 for i in range(count)]
    if dist == "7":
        return [b"%06d" % (i % 1000000) for i in range(count)]
    if dist == "10":
        return [b"%09d" % i + b"x" for i in range(count)]
    if dist == "loguniform":
        out = []
        for i in range(count):
            n = int(2 ** (rng.random() * 12))
            out.append((b"%d-" % i + b"y" * n)[:max(1, n)])
        return out
    if dist == "nearlimit":
        return [(b"%d:" % i) + b"z" * (MAX_ARG_STRLEN - 1 - len(b"%d:" % i) - (i % 3)) for i in range(count)]
    if dist == "mixed":
        out = []
        for i in range(count):
            r = rng.random()
            n = 1 if r < 0.6 else (rng.randint(2, 40) if r < 0.95 else rng.randint(100, 5000))
            out.append((b"%d" % i + b"m" * n)[:n])
        return out
    raise ValueError(dist)


def point(name, count, dist, env_kb, stack, opts=(), big=None, mode="-0", env_tiny=0, cmd_path_len=0, words_per_line=None, dup_env=None,
          env_raw=0):
    """env_kb: environment padding made of few large variables; env_tiny: number of additional tiny variables (each costs the
    kernel a pointer as well as its bytes)."""
    return {"name": name, "count": count, "dist": dist, "env_kb": env_kb, "stack": stack, "opts": list(opts), "big": big, "mode": mode,
            "env_tiny": env_tiny, "cmd_path_len": cmd_path_len, "words_per_line": words_per_line, "dup_env": dup_env, "env_raw": env_raw}


def grid(ctx, rng):
    q = [
        point("400k x 1 byte, 8MiB stack", 400000, "1", 1, 8 * MIB),
        point("600k x 7 bytes, a 100000-byte environment variable that is not valid UTF-8", 600000, "7", 1, 8 * MIB, env_raw=100000),
        point("3500 x 999 bytes, environment with DUPVAR=<1000 bytes> 40 times", 3500, "999", 1, 8 * MIB, dup_env=(40, 1000)),
        point("300k x 2 bytes, 5000 words per line, -L 50", 300000, "2", 1, 8 * MIB, opts=["-L", "50"], mode="words", words_per_line=5000),
        point("one line of 400k one-byte words, -L 1", 400000, "1", 1, 8 * MIB, opts=["-L", "1"], mode="words", words_per_line=400000),
        point("100k x 10 bytes, 100 words per line, --max-lines=3, 512KiB stack", 100000, "10", 1, 512 * KIB, opts=["--max-lines=3"], mode="words",
              words_per_line=100),
        point("100k x 1 byte, 512KiB stack", 100000, "1", 1, 512 * KIB),
        point("100k x 10 bytes, env 60KB, 1MiB stack", 100000, "10", 60, 1 * MIB),
        point("1000 log-uniform, 8MiB", 1000, "loguniform", 1, 8 * MIB),
        point("40 near-limit args, 8MiB", 40, "nearlimit", 1, 8 * MIB),
        point("near-limit args, 1MiB stack (one per batch)", 6, "nearlimit", 1, 1 * MIB),
        point("one 131000-byte arg cannot fit a 128KiB budget", 20, "10", 1, 512 * KIB, big=(10, 131000)),
        point("one 131072-byte arg among small", 300, "10", 1, 8 * MIB, big=(150, MAX_ARG_STRLEN)),
        point("one 200000-byte arg among small", 300, "10", 1, 8 * MIB, big=(7, 200000)),
        point("single argument", 1, "10", 1, 8 * MIB),
        point("100k x 1 byte -n 5000", 100000, "1", 1, 8 * MIB, opts=["-n", "5000"]),
        point("100k x 2 bytes -s 100000", 100000, "2", 1, 8 * MIB, opts=["-s", "100000"]),
        point("100k x 10 bytes -s 10000000 (above the OS budget), 512KiB stack", 100000, "10", 1, 512 * KIB, opts=["-s", "10000000"]),
        point("400k x 2 bytes, env 1MB, 64MiB stack", 400000, "2", 1000, 64 * MIB),
        point("200k mixed, unlimited stack", 200000, "mixed", 100, -1),
        point("600k x 10 bytes, env 1MB, unlimited stack", 600000, "10", 1000, -1),
        point("50k x 1 byte, newline mode, 512KiB", 50000, "1", 1, 512 * KIB, mode="nl"),
        # -s in force but not the binding limit: the OS limits (pointer cost, per-argument cap) must still be honoured
        point("600k x 1 byte -s 1000000 (legal, below the OS budget), 8MiB", 600000, "1", 1, 8 * MIB, opts=["-s", "1000000"]),
        point("60k x 1 byte -s 100000, 512KiB stack", 60000, "1", 1, 512 * KIB, opts=["-s", "100000"]),
        point("one 200000-byte arg among small with -s 500000", 300, "10", 1, 8 * MIB, opts=["-s", "500000"], big=(7, 200000)),
        point("one 131072-byte arg with -s 1500000 -n 100", 300, "10", 1, 8 * MIB, opts=["-s", "1500000", "-n", "100"], big=(150, MAX_ARG_STRLEN)),
        # the argument that fits no command line arrives exactly when -n has just closed a group (the first of the next one)
        point("one 131072-byte arg first of the second -n 100 group", 300, "10", 1, 8 * MIB, opts=["-n", "100"], big=(100, MAX_ARG_STRLEN)),
        point("one 200000-byte arg first of a later -n 3 group", 300, "10", 1, 8 * MIB, opts=["-n", "3"], big=(150, 200000)),
        point("one 131072-byte arg sixth under -n 1", 40, "10", 1, 8 * MIB, opts=["-n", "1"], big=(5, MAX_ARG_STRLEN)),
        point("one 131072-byte arg first of the third -n 2 group with -s 1000000", 40, "10", 1, 8 * MIB, opts=["-s", "1000000", "-n", "2"], big=(4, MAX_ARG_STRLEN)),
        # multi-byte arguments: limits are in bytes, not characters
        point("30k x 100 two-byte characters, 8MiB", 30000, "utf8-200", 1, 8 * MIB),
        point("one argument of 100000 two-byte characters (200000 bytes) among small", 300, "10", 1, 8 * MIB, big=(9, "utf8:100000")),
        # finite stack limits above 24MiB: the kernel still grants at most 6MiB
        point("700k x 10 bytes, finite 64MiB stack (more than 6MiB of arguments)", 700000, "10", 1, 64 * MIB),
        point("700k x 10 bytes, finite 1GiB stack", 700000, "10", 1, 1024 * MIB),
        point("700k x 10 bytes, finite 32MiB stack, 4000 tiny environment variables", 700000, "10", 1, 32 * MIB, env_tiny=4000),
        # a long path to the command: the kernel copies the file name as well as argv[0]
        point("400k x 1 byte, command reached through a 3300-byte path, 8MiB", 400000, "1", 1, 8 * MIB, cmd_path_len=3300),
        point("60k x 2 bytes, command reached through a 3900-byte path, 512KiB stack", 60000, "2", 1, 512 * KIB, cmd_path_len=3900),
        point("400k x 1 byte, bare command name found through a 3600-byte PATH entry, 8MiB", 400000, "1", 1, 8 * MIB, cmd_path_len=-3600),
        # environments made of many tiny variables (pointer cost dominates)
        point("400k x 7 bytes, 4000 tiny environment variables, 8MiB", 400000, "7", 1, 8 * MIB, env_tiny=4000),
        point("100k x 2 bytes, 20000 tiny environment variables, 8MiB", 100000, "2", 1, 8 * MIB, env_tiny=20000),
        point("60k x 1 byte, 3000 tiny environment variables, 512KiB", 60000, "1", 1, 512 * KIB, env_tiny=3000),
    ]
    if ctx.quick:
        return q
    t = list(q)
    for count in (1, 1000, 100000, 1000000):
        for dist in ("1", "10", "loguniform", "mixed"):
            for stack in (512 * KIB, 1 * MIB, 8 * MIB, 64 * MIB, -1):
                if count == 1000000 and dist in ("loguniform",):
                    continue
                env_kb = rng.choice([1, 60, 100]) if stack <= MIB else rng.choice([1, 100, 1000])
                opts = rng.choice([[], [], ["-n", str(rng.choice([1000, 30000]))], ["-s", str(rng.choice([4096, 100000, 50000000]))],
                                   ["-s", str(rng.choice([120000, 500000, 1000000, 2000000]))]])
                tiny = rng.choice([0, 0, 300, 4000, 20000])
                t.append(point("%d x %s, env %dKB + %d tiny, stack %d %s" % (count, dist, env_kb, tiny, stack, " ".join(opts)), count, dist, env_kb, stack,
                               opts, env_tiny=tiny))
    for stack in (512 * KIB, 2 * MIB, 8 * MIB, -1):
        for dist in ("1", "10", "mixed"):
            wpl = rng.choice([7, 1000, 50000])
            L = rng.choice([1, 2, 40, 3000])
            count = rng.choice([200000, 600000])
            L = max(L, count // (wpl * 4000))         # (at most a few thousand invocations per point: each is traced)
            t.append(point("%d x %s, %d words per line, -L %d, stack %d" % (count, dist, wpl, L, stack), count, dist, 1, stack, opts=["-L", str(L)],
                           mode="words", words_per_line=wpl, env_tiny=rng.choice([0, 2000])))
    for stack in (512 * KIB, 8 * MIB, -1):
        t.append(point("near-limit x 100 stack %d" % stack, 100, "nearlimit", 1, stack))
        t.append(point("one 131072 arg stack %d" % stack, 50, "10", 1, stack, big=(49, MAX_ARG_STRLEN)))
        t.append(point("one 1MiB arg stack %d" % stack, 50, "10", 1, stack, big=(0, MIB)))
    return t


E2BIG_RE = re.compile(rb"execve\(.*= -1 E2BIG")
EXEC_RE = re.compile(rb"execve\(")


def run_point(job):
    p, seed = job
    st = Stats()
    rng = common.rng_for(seed, "C06", p["name"])
    wd = common.mkscratch("C06")
    try:
        args = gen_args(rng, p["count"], p["dist"])
        big_idx = None
        if p["big"]:
            big_idx, big_len = p["big"]
            if isinstance(big_len, str) and big_len.startswith("utf8:"):
                args[big_idx] = ("é" * int(big_len[5:])).encode()
            else:
                args[big_idx] = b"B" * big_len
        sep = b"\0" if p["mode"] == "-0" else b"\n"
        data = sep.join(args) + sep
        if p.get("words_per_line"):
            # default mode, several blank-separated words per input line (what -L counts)
            w = p["words_per_line"]
            data = b"".join(b" ".join(args[j:j + w]) + b"\n" for j in range(0, len(args), w))
            st.inc("points_with_several_words_per_line")
        env = common.clean_env()
        left = p["env_kb"] * 1000
        i = 0
        while left > 0:
            n = min(left, 100000)
            env["VERIF_PAD%d" % i] = "p" * n
            left -= n
            i += 1
        for j in range(p.get("env_tiny", 0)):
            env["T%d" % j] = "1"
        if p.get("env_raw"):
            # a large variable whose value is not valid UTF-8 (carried as surrogate escapes): it costs the kernel its bytes all the same
            env["VERIF_RAW"] = "\udce9" * p["env_raw"]
            st.inc("points_with_a_non_utf8_environment_variable")
        # the environment alone must leave room to start xargs at all (otherwise nothing can be observed)
        kl = max(min(6 * MIB, (p["stack"] if p["stack"] >= 0 else 1 << 62) // 4), 128 * KIB)
        while sum(len(k_) + len(v_) + 2 + 8 for k_, v_ in env.items()) > kl // 2:
            victims = [k_ for k_ in env if k_.startswith("T") and k_[1:].isdigit()][:2000] or [k_ for k_ in env if k_.startswith("VERIF_PAD")][:1]
            if not victims:
                break
            for v_ in victims:
                del env[v_]
            st.inc("environment_trimmed_to_fit_budget")
        log = os.path.join(wd, "rec.log")
        env.update({"VERIF_REC_LOG": log, "VERIF_REC_MODE": "compact"})
        slog = os.path.join(wd, "strace.log")
        stack = p["stack"]

        def pre():
            soft, hard = resource.getrlimit(resource.RLIMIT_STACK)
            resource.setrlimit(resource.RLIMIT_STACK, (resource.RLIM_INFINITY if stack < 0 else stack, hard))
        cmd = common.REC
        if p.get("cmd_path_len", 0) < 0:
            # a bare command name, resolved by the PATH search through a very long directory name
            d = wd
            while len(d) + 240 < -p["cmd_path_len"]:
                d = os.path.join(d, "d" * 230)
                os.mkdir(d)
            os.symlink(common.REC, os.path.join(d, "verif-rec-cmd"))
            env["PATH"] = d + ":" + env["PATH"]
            cmd = "verif-rec-cmd"
            st.inc("points_with_long_command_path")
        elif p.get("cmd_path_len"):
            d = wd
            while len(d) + 240 < p["cmd_path_len"]:
                d = os.path.join(d, "d" * 230)
                os.mkdir(d)
            cmd = os.path.join(d, "rec")
            os.symlink(common.REC, cmd)
            st.inc("points_with_long_command_path")
        xargv = [common.XARGS] + (["-0"] if p["mode"] == "-0" else []) + p["opts"] + [cmd]
        if p.get("dup_env"):
            # an environment block as only a raw execve can hand it over: the same name many times (a dict or a shell would have
            # collapsed them). What xargs measures and what its children receive must still agree.
            ndup, dsize = p["dup_env"]
            launcher = ("import ctypes, os, sys\n"
                        "envp = [k + b'=' + v for k, v in os.environb.items()] + [b'DUPVAR=' + b'd' * %d] * %d\n"
                        "argv = [a.encode() for a in sys.argv[1:]]\n"
                        "A = (ctypes.c_char_p * (len(argv) + 1))(*argv, None)\n"
                        "E = (ctypes.c_char_p * (len(envp) + 1))(*envp, None)\n"
                        "ctypes.CDLL(None, use_errno=True).execve(argv[0], A, E)\n"
                        "sys.exit(97)\n" % (dsize, ndup))
            xargv = [sys.executable, "-c", launcher] + xargv
            st.inc("points_with_repeated_environment_names")
        argv = ["strace", "-f", "-qq", "-o", slog, "-e", "trace=execve", "-s", "16"] + xargv
        rc, out, err, to = common.run_cmd(argv, input=data, env=env, cwd=wd, timeout=900, preexec_fn=pre)
        st.inc("evaluations")
        st.add("distinct", p["name"])
        detail = {"point": p["name"], "exit": rc, "stderr": err[-300:]}
        rp = {"point": p}
        if to:
            st.notes.append("watchdog fired on %s (inconclusive for this point)" % p["name"])
            st.inc("watchdog")
            return st
        try:
            with open(slog, "rb") as f:
                sdata = f.read()
        except FileNotFoundError:
            raise common.Inconclusive("strace produced no log: %r" % err[-200:])
        n_exec = len(EXEC_RE.findall(sdata))
        e2big = [l for l in sdata.split(b"\n") if E2BIG_RE.search(l)]
        st.inc("execve_events", n_exec)
        if n_exec == 0:
            raise common.Inconclusive("no execve events in strace log")
        inv = xref.read_reclog(log, compact=True)
        st.inc("child_invocations", len(inv))
        if len(inv) >= 2:
            st.inc("points_with_several_batches")
        label = "stack=%s" % ("unlimited" if stack < 0 else "%dKiB" % (stack // KIB))
        for _, (argc, nbytes, ch, maxlen) in inv:
            st.c["max_argc_accepted[%s]" % label] = max(st.c["max_argc_accepted[%s]" % label], argc)
            st.c["max_argv_bytes_accepted[%s]" % label] = max(st.c["max_argv_bytes_accepted[%s]" % label], nbytes)
        problems = []
        if e2big:
            problems.append("execve rejected with E2BIG %d times: %r" % (len(e2big), e2big[0][:160]))
        if rc == 126 or b"too long" in err:
            problems.append("xargs reported that the command could not be run (exit %r): %r" % (rc, err[-160:]))
        if rc in (101, 134, -6, -11):
            problems.append("xargs crashed: exit %r %r" % (rc, err[-200:]))
        # exactly-once, in order
        pos = 0
        ok_seq = True
        nlim = None
        if "-n" in p["opts"]:
            nlim = int(p["opts"][p["opts"].index("-n") + 1])
        for _, (argc, nbytes, ch, maxlen) in inv:
            chunk = args[pos:pos + argc]
            if len(chunk) != argc or xref.chain(chunk) != ch:
                ok_seq = False
                break
            if nlim is not None and argc > nlim:
                problems.append("batch of %d arguments exceeds -n %d" % (argc, nlim))
            if maxlen + 1 > MAX_ARG_STRLEN:
                problems.append("an argument of %d bytes was handed to exec" % maxlen)
            pos += argc
        if not ok_seq:
            problems.append("recorder log does not continue the input sequence at argument %d (loss, duplication, reorder or split)" % pos)
        # Which argument (if any) cannot be passed at all? An argument is *definitely oversize* if it exceeds the per-argument
        # limit, the whole kernel budget, or an explicit -s; it is in a *gray zone* if it is less than 8 KiB below the kernel budget
        # (xargs' own headroom makes either answer legitimate there).
        klimit = max(min(6 * MIB, (stack if stack >= 0 else 1 << 62) // 4), 128 * KIB)
        fixed = sum(len(k) + len(v) + 2 + 8 for k, v in env.items()) + len(common.REC) + 1 + 24
        slim = int(p["opts"][p["opts"].index("-s") + 1]) if "-s" in p["opts"] else None
        cmdcost = len(common.REC) + 1
        first_over = first_gray = None
        for ai, a in enumerate(args):
            blen = len(a) + 1
            if blen < 2000 and (slim is None or slim >= 4096):
                continue
            over = blen > MAX_ARG_STRLEN or blen + 8 + fixed > klimit or (slim is not None and cmdcost + blen > slim)
            gray = not over and blen + 8 + fixed > klimit - 8192
            if over and first_over is None:
                first_over = ai
                break
            if gray and first_gray is None:
                first_gray = ai
        if big_idx is not None and first_over != big_idx and first_gray is None:
            raise common.Inconclusive("grid point %s: the big argument is not the first over an OS limit (first_over=%r)" % (p["name"], first_over))
        if first_gray is not None and (first_over is None or first_gray < first_over):
            st.inc("points_with_argument_in_gray_zone(outcome not judged)")
        elif first_over is None:
            st.inc("points_all_args_within_limit")
            if rc != 0:
                problems.append("exit status %r, expected 0" % rc)
            if ok_seq and pos != len(args):
                problems.append("%d of %d arguments delivered" % (pos, len(args)))
        else:
            st.inc("points_with_oversize_argument")
            if rc != 1:
                problems.append("exit status %r for an argument of %d bytes that cannot be passed, expected 1" % (rc, len(args[first_over])))
            if not err.strip():
                problems.append("no diagnostic for the over-long argument")
            if ok_seq and pos > first_over:
                problems.append("arguments after the over-long one were delivered (%d > %d)" % (pos, first_over))
        if problems:
            st.violate("os-limit", None, dict(detail, problems=problems, invocations=len(inv)), rp)
        st.sample({"point": p["name"], "exit": rc, "batches": len(inv), "execve_events": n_exec})
    finally:
        common.force_rmtree(wd)
    return st


REPLACE_POINTS = [
    # (name, initial arguments, line lengths, stack): every *line* is within the per-argument limit; what xargs builds from it may not be
    ("{}{} with a 100000-byte line (argument of 200000 bytes after substitution)", ["{}{}"], [100000], 8 * MIB),
    ("x{} with a 131071-byte line (one byte over after substitution)", ["x{}"], [131071], 8 * MIB),
    ("30 x {} with a 100000-byte line (3 MB after substitution, every argument fits alone)", ["{}"] * 30, [100000], 8 * MIB),
    ("{} with lines of 100000, 10 and 131000 bytes (all fit)", ["{}"], [100000, 10, 131000], 8 * MIB),
    ("a{}b{}c: second line of 70000 bytes does not fit after substitution", ["a{}b{}c"], [10, 70000, 5], 8 * MIB),
    ("{}{} with a 60000-byte line (fits)", ["{}{}"], [60000], 8 * MIB),
    ("{} {} {} with a 50000-byte line under a 512KiB stack (150 KB > 128 KiB budget)", ["{}", "{}", "{}"], [50000], 512 * KIB),
    ("pre-{}-post x 5 with 20000-byte lines under a 512KiB stack (100 KB, fits)", ["pre-{}-post"] * 5, [20000, 20000], 512 * KIB),
]


def replace_point(job):
    """-I: the command line is built by substitution, so its size is not the size of what was read. Whatever xargs hands to exec must
    still be accepted; what cannot be passed is reported with exit status 1 after the lines before it have been run."""
    (name, initial, lens, stack), seed = job
    st = Stats()
    wd = common.mkscratch("C06r")
    try:
        lines = [(b"%d:" % i) + b"L" * (n - len(b"%d:" % i)) for i, n in enumerate(lens)]
        data = b"".join(l + b"\n" for l in lines)
        log = os.path.join(wd, "rec.log")
        env = common.clean_env({"VERIF_REC_LOG": log, "VERIF_REC_MODE": "compact"})
        slog = os.path.join(wd, "strace.log")

        def pre():
            soft, hard = resource.getrlimit(resource.RLIMIT_STACK)
            resource.setrlimit(resource.RLIMIT_STACK, (stack, hard))
        argv = ["strace", "-f", "-qq", "-o", slog, "-e", "trace=execve", "-s", "16", common.XARGS, "-I", "{}", common.REC] + initial
        rc, out, err, to = common.run_cmd(argv, input=data, env=env, cwd=wd, timeout=300, preexec_fn=pre)
        st.inc("evaluations")
        st.inc("replace_mode_points")
        st.add("distinct", name)
        if to:
            st.notes.append("watchdog fired on %s (inconclusive for this point)" % name)
            return st
        with open(slog, "rb") as f:
            sdata = f.read()
        e2big = [l for l in sdata.split(b"\n") if E2BIG_RE.search(l)]
        inv = xref.read_reclog(log, compact=True)
        klimit = max(min(6 * MIB, stack // 4), 128 * KIB)
        fixed = sum(len(k) + len(v) + 2 + 8 for k, v in env.items()) + len(common.REC) + 1 + 24
        first_over = None
        gray = False
        for i, l in enumerate(lines):
            built = [a.encode().replace(b"{}", l) for a in initial]
            total = sum(len(b) + 1 + 8 for b in built) + fixed
            if any(len(b) + 1 > MAX_ARG_STRLEN for b in built) or total > klimit:
                first_over = i
                break
            if total > klimit - 8192:
                gray = True
        problems = []
        if e2big:
            problems.append("execve rejected with E2BIG %d times: %r" % (len(e2big), e2big[0][:160]))
        if rc == 126 or b"too long" in err:
            problems.append("xargs reported that the command could not be run (exit %r): %r" % (rc, err[-160:]))
        if gray:
            st.inc("points_with_argument_in_gray_zone(outcome not judged)")
        elif first_over is None:
            st.inc("replace_mode_points_that_fit")
            if rc != 0 or len(inv) != len(lines):
                problems.append("exit %r, %d invocations; expected 0 and %d" % (rc, len(inv), len(lines)))
        else:
            st.inc("replace_mode_points_too_large_after_substitution")
            if rc != 1 or not err.strip():
                problems.append("exit status %r (stderr %r) for a command line that cannot be passed after substitution, expected 1 and a diagnostic"
                                % (rc, err[-120:]))
            if len(inv) != first_over:
                problems.append("%d invocations, expected the %d lines before the one that does not fit" % (len(inv), first_over))
        if problems:
            st.violate("os-limit", None, {"point": "-I {}: " + name, "exit": rc, "stderr": err[-300:], "problems": problems, "invocations": len(inv)},
                       {"replace_point": name})
    finally:
        common.force_rmtree(wd)
    return st


def tight_env_point(job):
    """An environment that leaves only a few hundred to a few thousand bytes of the kernel's budget: whatever xargs decides - smaller
    command lines, or refusing with a diagnostic because nothing fits - it must not build a command line that exec rejects."""
    free, stack, seed = job
    st = Stats()
    wd = common.mkscratch("C06t")
    try:
        budget = max(min(6 * MIB, stack // 4), 128 * KIB)
        log = os.path.join(wd, "rec.log")
        env = common.clean_env({"VERIF_REC_LOG": log, "VERIF_REC_MODE": "compact"})
        used = sum(len(k_) + len(v_) + 2 + 8 for k_, v_ in env.items())
        target = budget - free
        i = 0
        while used < target - 130000:
            env["VERIF_E%d" % i] = "x" * 100000
            used += len("VERIF_E%d" % i) + 100000 + 2 + 8
            i += 1
        rest = target - used - len("VERIF_LAST") - 2 - 8
        if rest > 0:
            env["VERIF_LAST"] = "x" * rest
        args = [b"a%05d" % j for j in range(300)]
        data = b"".join(a + b"\n" for a in args)

        def pre():
            soft, hard = resource.getrlimit(resource.RLIMIT_STACK)
            resource.setrlimit(resource.RLIMIT_STACK, (stack, hard))
        try:
            rc, out, err, to = common.run_cmd([common.XARGS, common.REC], input=data, env=env, cwd=wd, timeout=120, preexec_fn=pre)
        except common.Inconclusive:
            st.inc("tight_environment_points_where_xargs_itself_could_not_be_started")
            return st
        st.inc("evaluations")
        st.inc("tight_environment_points")
        st.add("distinct", ("tight-env", free, stack))
        inv = xref.read_reclog(log, compact=True)
        delivered = sum(argc for _, (argc, nbytes, ch, maxlen) in inv)
        problems = []
        if rc == 126 or b"too long" in err:
            problems.append("xargs built a command line that exec rejected (exit %r): %r" % (rc, err[-160:]))
        elif rc in (101, 134, -6, -11):
            problems.append("xargs crashed: exit %r %r" % (rc, err[-200:]))
        elif rc == 0:
            if delivered != len(args):
                problems.append("exit 0 but %d of %d arguments delivered" % (delivered, len(args)))
            st.inc("tight_environment_points_served")
        elif rc == 1 and err.strip():
            st.inc("tight_environment_points_refused_with_a_diagnostic")
        else:
            problems.append("exit status %r, stderr %r" % (rc, err[-160:]))
        if problems:
            st.violate("os-limit", None, {"point": "environment leaving %d bytes of a %d-byte budget" % (free, budget), "exit": rc, "stderr": err[-300:],
                                          "problems": problems, "invocations": len(inv)}, {"tight_env_free": free, "stack": stack})
    finally:
        common.force_rmtree(wd)
    return st


def run(ctx):
    ctx.rule = ("grid of argument count (1..4e5 quick, ..1e6 thorough) x length distribution (1 byte, 2, 10, log-uniform 1..4096, "
                "near the 131071-byte per-argument limit, one over-long argument) x environment size (1KB..1MB) x RLIMIT_STACK "
                "(512KiB..64MiB, unlimited) x {none, -n, -s, -L with several words per line}; -I points whose command line grows by "
                "substitution (fits / one argument too large / total too large); distinct = grid point")
    ctx.assumptions = ["kernel %s execve accounting and glibc sysconf(_SC_ARG_MAX)" % os.uname().release,
                       "per-argument limit MAX_ARG_STRLEN = 32 pages = %d incl. NUL" % MAX_ARG_STRLEN,
                       "strace -f as syscall recorder"]
    try:
        subprocess.run(["strace", "-o", "/dev/null", "true"], check=True, capture_output=True)
    except Exception as e:
        raise common.Inconclusive("strace unusable: %r" % (e,))
    rng = common.rng_for(ctx.seed, "C06grid")
    pts = grid(ctx, rng)
    if ctx.replay:
        import json
        pts = [json.load(open(ctx.replay))["replay"]["point"]]
    ctx.pmap(run_point, [(p, ctx.seed) for p in pts], nproc=8)
    if not ctx.replay:
        frees = [300, 1500, 3000, 5000, 6100, 6200, 7000, 9000, 20000] if ctx.quick else [200, 300, 600, 1000, 1500, 2000, 3000, 4000, 5000, 6000, 6100, 6144, 6150, 6200,
                                                                                           6500, 7000, 8000, 9000, 12000, 20000, 50000]
        ctx.pmap(tight_env_point, [(f_, stk, ctx.seed) for f_ in frees for stk in ((8 * MIB,) if ctx.quick else (8 * MIB, 512 * KIB, 64 * MIB))], nproc=8)
        ctx.require("tight_environment_points", 5)
        ctx.pmap(replace_point, [(rp_, ctx.seed) for rp_ in REPLACE_POINTS], nproc=8)
        ctx.require("replace_mode_points_that_fit", 2)
        ctx.require("replace_mode_points_too_large_after_substitution", 2)
    for key in ("points_with_several_batches", "points_with_oversize_argument", "points_all_args_within_limit"):
        ctx.require(key, 2)
