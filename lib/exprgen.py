"""Random find expressions (as ASTs rendered to token lists) for C01/C03/C08/C10."""

PREC = {"list": 0, "or": 1, "and": 2, "not": 3, "prim": 4}


def render(node, rng, need=0):
    """Render AST to tokens. `need` = minimal precedence allowed without parentheses."""
    k = node[0]
    if k == "prim":
        toks = list(node[1])
        if rng.random() < 0.06:
            toks = ["("] + toks + [")"]
        return toks
    p = PREC[k]
    if k == "not":
        inner = render(node[1], rng, 3)
        toks = [rng.choice(["!", "-not"])] + inner
    elif k == "and":
        toks = []
        for i, c in enumerate(node[1]):
            if i:
                j = rng.random()
                if j < 0.3:
                    toks.append("-a")
                elif j < 0.4:
                    toks.append("-and")
            toks += render(c, rng, 3)
    elif k == "or":
        toks = []
        for i, c in enumerate(node[1]):
            if i:
                toks.append(rng.choice(["-o", "-o", "-or"]))
            toks += render(c, rng, 2)
    else:
        toks = []
        for i, c in enumerate(node[1]):
            if i:
                toks.append(",")
            toks += render(c, rng, 1)
    if p < need or rng.random() < 0.08:
        toks = ["("] + toks + [")"]
    return toks


class Gen:
    """tests/actions/options are callables (rng, gen) -> prim node ('prim', [tokens])."""

    def __init__(self, rng, tests, actions, options, p_action=0.3, p_option=0.08, maxdepth=5):
        self.rng, self.tests, self.actions, self.options = rng, tests, actions, options
        self.p_action, self.p_option, self.maxdepth = p_action, p_option, maxdepth
        self.nact = 0

    def leaf(self):
        r = self.rng.random()
        if r < self.p_action and self.actions:
            self.nact += 1
            return self.rng.choice(self.actions)(self.rng, self)
        if r < self.p_action + self.p_option and self.options:
            return self.rng.choice(self.options)(self.rng, self)
        return self.rng.choice(self.tests)(self.rng, self)

    def node(self, d=0):
        rng = self.rng
        if d >= self.maxdepth or rng.random() < 0.25 + 0.1 * d:
            return self.leaf()
        r = rng.random()
        if r < 0.2:
            return ("not", self.node(d + 1))
        n = rng.choice([2, 2, 2, 3, 3, 4])
        kids = [self.node(d + 1) for _ in range(n)]
        if r < 0.55:
            return ("and", kids)
        if r < 0.82:
            return ("or", kids)
        return ("list", kids)


def P(*toks):
    return ("prim", list(toks))
