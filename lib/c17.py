"""C17 — -regex/-iregex: true iff the whole path is in the language of the pattern, in the syntax selected by the nearest
preceding -regextype.

Monitor: matcher objects built by the real parser from `[-regextype T] -regex P` (several scoping shapes) are applied
in-process to synthetic path texts; the oracle is Python's re.fullmatch on the same regex AST rendered in Python syntax.
Metamorphic: a pattern and the same pattern with every alternation reversed must select the same paths."""
import re
import warnings

import os

import common
from common import Stats

warnings.simplefilter("ignore", FutureWarning)

SYNTAXES = ["emacs", "posix-basic", "posix-extended", "grep", "ed", "sed"]
BASIC = ("posix-basic", "ed", "sed")

LITS = list("abcABab/.-_+") + ["é", "(", ")", "{", "}", "|", "?", "*", "^", "$", "[", " ", "#", "\t", " ", "#", ",", ":", "=", "!", "&", "\\", "\\",
                                "<", ">", "~", "'", '"', "@", "%", ";"]
PATH_CHARS = list("abcAB/.-_+") + ["é", "(", "|", "?", "*", "{", " ", "#", "\t", "=", "<", "'", "\\"]

# characters that need a backslash to be literal outside brackets, per syntax
ESCAPE = {
    "emacs": set(".*+?[]^$\\"),
    "posix-basic": set(".*[]^$\\"),
    "posix-extended": set(".*+?[](){}|^$\\"),
    "grep": set(".*[]^$\\"),
    "python": set(".*+?[](){}|^$\\"),
}
for _s in ("ed", "sed"):
    ESCAPE[_s] = ESCAPE["posix-basic"]

OPS = {
    # syntax: (open, close, alt, plus, opt, lbrace, rbrace)
    "emacs": ("\\(", "\\)", "\\|", "+", "?", "\\{", "\\}"),
    "posix-basic": ("\\(", "\\)", None, None, None, "\\{", "\\}"),
    "posix-extended": ("(", ")", "|", "+", "?", "{", "}"),
    "grep": ("\\(", "\\)", "\\|", "\\+", "\\?", "\\{", "\\}"),
    "python": ("(?:", ")", "|", "+", "?", "{", "}"),
}
for _s in ("ed", "sed"):
    OPS[_s] = OPS["posix-basic"]


def gen(rng, depth=0, allow=("alt", "plus", "opt"), inq=False):
    """Random regex AST. Inside an unbounded quantifier only bounded quantifiers are generated (nested unbounded repetition
    makes backtracking matchers — the oracle included — exponential)."""
    r = rng.random()
    if depth >= 3 or r < 0.3:
        r2 = rng.random()
        if r2 < 0.6:
            return ("lit", rng.choice(LITS))
        if r2 < 0.75:
            return ("dot",)
        return gen_set(rng)
    if r < 0.55:
        return ("cat", [gen(rng, depth + 1, allow, inq) for _ in range(rng.randint(2, 4))])
    if r < 0.7 and "alt" in allow:
        return ("alt", [gen(rng, depth + 1, allow, inq) for _ in range(rng.randint(2, 3))])
    if r < 0.78:
        return ("group", gen(rng, depth + 1, allow, inq))
    q = rng.random()
    if inq:
        inner = gen(rng, depth + 1, allow, True)
        if q < 0.5 and "opt" in allow:
            return ("opt", inner)
        m = rng.randint(0, 1)
        return ("rep", inner, m, m + rng.randint(0, 1), rng.random() < 0.3)
    if q < 0.4:
        return ("star", gen(rng, depth + 1, allow, True))
    if q < 0.55 and "plus" in allow:
        return ("plus", gen(rng, depth + 1, allow, True))
    if q < 0.7 and "opt" in allow:
        return ("opt", gen(rng, depth + 1, allow, False))
    if q < 0.85:
        m = rng.randint(0, 2)
        n = rng.choice([None, m, m + 1, m + 2])
        return ("rep", gen(rng, depth + 1, allow, n is None), m, n, rng.random() < 0.3)
    return ("star", gen(rng, depth + 1, allow, True))


def gen_set(rng):
    neg = rng.random() < 0.3
    items = []
    for _ in range(rng.randint(1, 3)):
        if rng.random() < 0.35:
            lo, hi = sorted(rng.sample(rng.choice(["abc", "ABC", "abcz"]), 2))
            items.append(("r", lo, hi))
        else:
            items.append(("c", rng.choice(list("abcAB/._+") + ["é", "(", "*", "|", ".", " ", "#", "\t", "=", "<", "'", "?", "{", "$"])))
    return ("set", neg, items)


def features(ast, acc=None):
    acc = acc if acc is not None else set()
    acc.add(ast[0])
    if ast[0] in ("cat", "alt"):
        for c in ast[1]:
            features(c, acc)
    elif ast[0] in ("group", "star", "plus", "opt", "rep"):
        features(ast[1], acc)
    return acc


def usable(ast, syntax):
    f = features(ast)
    if syntax in BASIC and f & {"alt", "plus", "opt"}:
        return False
    return True


def render(ast, syntax, reverse_alt=False):
    op, cl, alt, plus, opt, lb, rb = OPS[syntax]
    k = ast[0]
    if k == "lit":
        c = ast[1]
        return ("\\" + c) if c in ESCAPE[syntax] else c
    if k == "dot":
        return "."
    if k == "set":
        s = "[" + ("^" if ast[1] else "")
        # order members so that nothing is special: ']' not used; '-' not used; '^' not used as member
        for it in ast[2]:
            if it[0] == "c":
                s += it[1]
            else:
                s += it[1] + "-" + it[2]
        return s + "]"
    if k == "cat":
        return "".join(render_atom_or(c, syntax, reverse_alt, in_cat=True) for c in ast[1])
    if k == "alt":
        kids = list(ast[1])
        if reverse_alt:
            kids = kids[::-1]
        return alt.join(render_atom_or(c, syntax, reverse_alt, in_alt=True) for c in kids)
    if k == "group":
        return grp(render(ast[1], syntax, reverse_alt), syntax)
    inner = render_quantifiable(ast[1], syntax, reverse_alt)
    if k == "star":
        return inner + "*"
    if k == "plus":
        return inner + plus
    if k == "opt":
        return inner + opt
    if k == "rep":
        _, _, m, n, exact = ast
        if n is None:
            body = "%d," % m
        elif n == m and exact:
            body = "%d" % m
        else:
            body = "%d,%d" % (m, n)
        return inner + lb + body + rb
    raise ValueError(k)


def grp(s, syntax):
    op, cl = OPS[syntax][0], OPS[syntax][1]
    if syntax == "python":
        return "(" + s + ")"
    return op + s + cl


def render_atom_or(c, syntax, reverse_alt, in_cat=False, in_alt=False):
    s = render(c, syntax, reverse_alt)
    if in_cat and c[0] == "alt":
        return grp(s, syntax)
    return s


def render_quantifiable(c, syntax, reverse_alt):
    s = render(c, syntax, reverse_alt)
    if c[0] in ("lit", "dot", "set", "group"):
        # a literal '*' etc. rendered with an escape is still a single atom
        return s
    return grp(s, syntax)


def sample(ast, rng, budget=12):
    k = ast[0]
    if k == "lit":
        return ast[1]
    if k == "dot":
        return rng.choice(PATH_CHARS)
    if k == "set":
        for _ in range(20):
            c = rng.choice(PATH_CHARS)
            hit = any((it[0] == "c" and it[1] == c) or (it[0] == "r" and it[1] <= c <= it[2]) for it in ast[2])
            if hit != ast[1]:
                return c
        return "a"
    if k == "cat":
        return "".join(sample(c, rng, budget) for c in ast[1])
    if k == "alt":
        return sample(rng.choice(ast[1]), rng, budget)
    if k == "group":
        return sample(ast[1], rng, budget)
    if k == "star":
        return "".join(sample(ast[1], rng, budget) for _ in range(rng.choice([0, 1, 2, 3])))
    if k == "plus":
        return "".join(sample(ast[1], rng, budget) for _ in range(rng.choice([1, 1, 2, 3])))
    if k == "opt":
        return sample(ast[1], rng, budget) if rng.random() < 0.5 else ""
    if k == "rep":
        m, n = ast[2], ast[3]
        hi = (m + 2) if n is None else n
        return "".join(sample(ast[1], rng, budget) for _ in range(rng.randint(m, hi)))
    raise ValueError(k)


def mutate(rng, s):
    r = rng.random()
    if r < 0.25 and s:
        return s[:-1]
    if r < 0.4 and s:
        return s[1:]
    if r < 0.6:
        return s + rng.choice(PATH_CHARS)
    if r < 0.7:
        return rng.choice(PATH_CHARS) + s
    if r < 0.85 and s:
        i = rng.randrange(len(s))
        return s[:i] + rng.choice(PATH_CHARS) + s[i + 1:]
    if s:
        return s.swapcase()
    return "a"


def risky(ast, inq=False):
    """True if an alternation or an optional/bounded repetition sits inside an unbounded repetition: backtracking engines
    (Oniguruma and the oracle alike) can then need exponentially many steps on long non-members."""
    k = ast[0]
    if k in ("lit", "dot", "set"):
        return False
    if k in ("cat", "alt"):
        if k == "alt" and inq:
            return True
        return any(risky(c, inq) for c in ast[1])
    if k == "group":
        return risky(ast[1], inq)
    if k in ("opt", "rep") and inq:
        return True
    unbounded = k in ("star", "plus") or (k == "rep" and ast[3] is None)
    return risky(ast[1], inq or unbounded)


def paths_for(rng, ast, n=18):
    out = set()
    for _ in range(n // 3):
        s = sample(ast, rng)
        out.add(s)
        out.add(mutate(rng, s))
        out.add(mutate(rng, mutate(rng, s)))
    out.add("".join(rng.choice(PATH_CHARS) for _ in range(rng.randint(1, 6))))
    cap = 11 if risky(ast) else 24
    return sorted(p for p in out if p and len(p) <= cap and "\n" not in p)


SHAPES = ["plain", "default-emacs", "in-parens", "after-closed-parens", "type-in-parens", "two-types", "overridden", "negated"]


def build_args(shape, syntax, pat, test, rng, other=None):
    """-> (args, truth function of (m1, m2)) where m1 = pattern matches in `syntax`, m2 = second pattern (two-types)."""
    if shape == "plain":
        return ["-regextype", syntax, test, pat], None
    if shape == "default-emacs":
        return [test, pat], None
    if shape == "in-parens":
        return ["-regextype", syntax, "(", test, pat, ")"], None
    if shape == "after-closed-parens":
        return ["(", "-true", ")", "-regextype", syntax, "(", "-true", "-a", test, pat, ")"], None
    if shape == "type-in-parens":
        return ["(", "-regextype", syntax, ")", test, pat], None
    if shape == "overridden":
        wrong = rng.choice([s for s in SYNTAXES if s != syntax])
        return ["-regextype", wrong, "-regextype", syntax, test, pat], None
    if shape == "negated":
        return ["-regextype", syntax, "!", test, pat], "neg"
    raise ValueError(shape)


class OracleTooSlow(Exception):
    pass


def _on_alarm(signum, frame):
    raise OracleTooSlow()


class Budgeted:
    """A compiled Python pattern whose match calls are cut off after a few seconds: a backtracking oracle that needs longer on one
    (pattern, path) pair has no answer for it - the pair is out of domain (counted), never a verdict and never a stall."""

    def __init__(self, rx, seconds=2.0):
        self.rx, self.seconds = rx, seconds
        import signal
        self.signal = signal
        signal.signal(signal.SIGALRM, _on_alarm)

    def _run(self, fn, text):
        self.signal.setitimer(self.signal.ITIMER_REAL, self.seconds)
        try:
            return fn(text)
        finally:
            self.signal.setitimer(self.signal.ITIMER_REAL, 0)

    def fullmatch(self, text):
        return self._run(self.rx.fullmatch, text)

    def match(self, text):
        return self._run(self.rx.match, text)


def py_flags(test):
    return re.S | (re.I if test == "-iregex" else 0)


def worker(job):
    k, nast, seed = job
    st = Stats()
    rng = common.rng_for(seed, "C17", k)
    base = common.mkscratch("C17w%d" % k)
    try:
        lines = []
        meta = {}
        cid = 0
        for _ in range(nast):
            ast = gen(rng)
            feats = features(ast)
            try:
                py = re.compile(render(ast, "python"), 0)
            except re.error:
                st.inc("python_rejects_own_rendering")
                continue
            paths = paths_for(rng, ast)
            for syntax in SYNTAXES:
                if not usable(ast, syntax):
                    st.inc("ast_not_expressible:" + ("basic" if syntax in BASIC else syntax))
                    continue
                test = "-iregex" if rng.random() < 0.25 else "-regex"
                shape = rng.choice(SHAPES)
                if shape == "default-emacs" and syntax != "emacs":
                    shape = "plain"
                pat = render(ast, syntax)
                if shape == "two-types":
                    # second, different AST in a different syntax; truth = or
                    ast2 = gen(rng)
                    syn2 = rng.choice([s for s in SYNTAXES if usable(ast2, s)])
                    test2 = "-regex"
                    args = ["-regextype", syntax, test, pat, "-o", "-regextype", syn2, test2, render(ast2, syn2)]
                    mode = ("or", render(ast2, "python"))
                else:
                    args, m = build_args(shape, syntax, pat, test, rng)
                    mode = (m, None)
                cid += 1
                c = "r%d" % cid
                meta[c] = (ast, syntax, test, shape, args, mode, paths, False)
                lines.append("\t".join([c, "P", "1", str(len(args))] + [common.hx(a) for a in args] + [common.hx(p) for p in paths]))
                # metamorphic twin: alternations reversed
                if "alt" in feats and shape != "two-types":
                    pat_r = render(ast, syntax, reverse_alt=True)
                    args_r = [pat_r if a == pat else a for a in args]
                    cid += 1
                    c2 = "r%d" % cid
                    meta[c2] = (ast, syntax, test, shape, args_r, mode, paths, True)
                    lines.append("\t".join([c2, "P", "1", str(len(args_r))] + [common.hx(a) for a in args_r] + [common.hx(p) for p in paths]))
        # (the choice of syntax - emacs by default - is a matter of the command line only: POSIXLY_CORRECT in the environment of half the
        # workers must not change a single answer)
        envp = dict(os.environ, POSIXLY_CORRECT="1") if k % 2 else None
        if envp:
            st.inc("batches_run_with_POSIXLY_CORRECT_set")
        res = common.run_vh("match", lines, base, cwd=base, per_case_timeout=60, env=envp)
        for c, (ast, syntax, test, shape, args, mode, paths, reversed_) in meta.items():
            r = res.get(c)
            rp = {"args": args, "paths": paths}
            if r is None or r[0] in ("HANG", "CRASH"):
                st.violate("hang-or-crash", None, {"args": args, "result": r}, rp)
                continue
            msg = common.unhx(r[1]).decode("utf-8", "replace")
            if r[0] == "panic" or (r[0] == "ok" and "P" in r[2]):
                st.violate("panic", None, {"args": args, "panic": msg}, rp)
                continue
            if r[0] == "err":
                st.violate("pattern-rejected", None, {"args": args, "error": msg, "syntax": syntax}, rp)
                continue
            st.inc("patterns")
            st.inc("syntax:" + syntax)
            st.inc("shape:" + shape)
            st.inc("test:" + test)
            if reversed_:
                st.inc("reversed_alternation_twins")
            for f in features(ast):
                st.inc("feature:" + f)
            st.add("distinct", (syntax, test, tuple(args)))
            fl = py_flags(test)
            py = Budgeted(re.compile(render(ast, "python", reverse_alt=reversed_), fl))   # same alternative order as find was given
            py2 = Budgeted(re.compile(mode[1], re.S)) if mode[0] == "or" else None
            def judge_path(p, b):
                want = py.fullmatch(p) is not None
                first_len = None
                if want:
                    m = py.match(p)
                    first_len = m.end() if m else None
                if mode[0] == "neg":
                    want_t = not want
                elif mode[0] == "or":
                    w2 = py2.fullmatch(p) is not None
                    want_t = want or w2
                else:
                    want_t = want
                if b == "E":
                    # the engine gave up on this (pattern, path) and said so on stderr: not an answer about membership
                    st.inc("out_of_domain_engine_gave_up")
                    return
                got = b == "1"
                st.inc("evaluations")
                st.inc("members" if want else "non_members")
                if got != want_t:
                    sig = None
                    # known mechanism: is_match() accepts only if the *first* match found at offset 0 already spans the path
                    got_raw = (not got) if mode[0] == "neg" else got
                    if mode[0] != "or" and want and not got_raw and first_len is not None and first_len < len(p):
                        sig = "first-match-shorter-than-path"
                    elif mode[0] == "or" and want_t and not got:
                        m1 = py.match(p)
                        m2 = py2.match(p)
                        short1 = want and m1 is not None and m1.end() < len(p)
                        short2 = (py2.fullmatch(p) is not None) and m2 is not None and m2.end() < len(p)
                        ok1 = want and not short1
                        ok2 = (py2.fullmatch(p) is not None) and not short2
                        if not ok1 and not ok2:
                            sig = "first-match-shorter-than-path"
                    st.violate("regex-mismatch", sig, {"args": args, "path": p, "python_fullmatch": want_t, "find": got,
                                                       "python_pattern": render(ast, "python"), "shape": shape,
                                                       "first_match_end": first_len}, rp)

            for p, b in zip(paths, r[2]):
                try:
                    judge_path(p, b)
                except OracleTooSlow:
                    st.inc("out_of_domain_oracle_too_slow")
    finally:
        common.force_rmtree(base)
    return st


# Patterns on which the engine gives up for one long path (nested, ambiguous repetition) but which plainly decide short paths.
# (rendering per syntax family, python pattern)
GIVEUP = [
    ({"ext": ".*/(a|aa)*b", "bas": ".*/\\(a\\|aa\\)*b"}, r".*/(a|aa)*b"),
    ({"ext": ".*/(a*)*b", "bas": ".*/\\(a*\\)*b"}, r".*/(a*)*b"),
    ({"ext": ".*/(a+)+b", "bas": None}, r".*/(a+)+b"),
    ({"ext": ".*/(x|xx|xxx)*y", "bas": ".*/\\(x\\|xx\\|xxx\\)*y"}, r".*/(x|xx|xxx)*y"),
]


def giveup_worker(job):
    """The answer for a path is a function of (pattern, path): a path on which the engine gives up (and says so) must not change
    what the same matcher answers for the paths that follow. Sequence: easy paths, the hopeless path, the same easy paths again."""
    k, seed = job
    st = Stats()
    rng = common.rng_for(seed, "C17g", k)
    base = common.mkscratch("C17g%d" % k)
    try:
        lines, meta = [], {}
        forms, pyp = GIVEUP[k % len(GIVEUP)]
        ch = "x" if "x" in pyp else "a"
        end = "y" if ch == "x" else "b"
        for syntax in ("posix-extended", "emacs", "grep", "posix-basic", "sed"):
            if syntax == "posix-extended":
                pat = forms["ext"]
            elif syntax in ("emacs", "grep"):
                pat = forms["ext"].replace("(", "\\(").replace(")", "\\)").replace("|", "\\|")
                if "+" in pat and syntax == "grep":
                    pat = pat.replace("+", "\\+")
            else:
                pat = forms["bas"]
                if pat is None or "|" in pat:
                    continue                     # POSIX basic syntaxes have no alternation / '+'
            easy = ["./" + ch * rng.randint(0, 6) + end for _ in range(4)] + ["./" + ch * 3 + "c", "./q", "./d/" + ch * 2 + end]
            hopeless = "./" + ch * rng.randint(44, 60) + "c"
            paths = easy + [hopeless] + easy + [hopeless] + easy
            args = ["-regextype", syntax, "-regex", pat]
            c = "g%d_%s" % (k, syntax)
            meta[c] = (syntax, args, paths, len(easy))
            lines.append("\t".join([c, "P", "1", str(len(args))] + [common.hx(a) for a in args] + [common.hx(p_) for p_ in paths]))
        res = common.run_vh("match", lines, base, cwd=base, per_case_timeout=300)
        py = re.compile(pyp, re.S)
        for c, (syntax, args, paths, ne) in meta.items():
            r = res.get(c)
            rp = {"args": args, "paths": paths}
            if r is None or r[0] in ("HANG", "CRASH", "panic") or (r[0] == "ok" and "P" in r[2]):
                st.violate("hang-or-crash", None, {"args": args, "result": r}, rp)
                continue
            if r[0] == "err":
                st.violate("pattern-rejected", None, {"args": args, "error": common.unhx(r[1]).decode("utf-8", "replace")}, rp)
                continue
            st.inc("giveup_sequences")
            bits = r[2]
            seen_giveup = False
            for i, (p_, b) in enumerate(zip(paths, bits)):
                if b == "E":
                    st.inc("engine_give_ups_observed")
                    seen_giveup = True
                    continue
                # the hopeless path ends in a character the pattern cannot end with; never hand it to the (backtracking) oracle
                want = False if len(p_) > 40 else py.fullmatch(p_) is not None
                st.inc("evaluations")
                if seen_giveup:
                    st.inc("evaluations_after_a_give_up")
                    st.inc("members_after_a_give_up" if want else "non_members_after_a_give_up")
                if (b == "1") != want:
                    m = py.match(p_) if want else None
                    sig = "first-match-shorter-than-path" if (want and b == "0" and m is not None and m.end() < len(p_)) else None
                    st.violate("regex-mismatch", sig, {"args": args, "path": p_, "index_in_sequence": i, "python_fullmatch": want,
                                                       "find": b == "1", "bits": bits, "after_a_give_up": seen_giveup,
                                                       "shape": "give-up-sequence"}, rp)
    finally:
        common.force_rmtree(base)
    return st


LONG_PATTERNS = [
    # (posix-extended, emacs/grep (escaped groups; None = same text as extended), python): ordinary greedy patterns, no nested
    # ambiguous repetition - linear work for a backtracking engine
    (".*a/x", None, r".*a/x"), (".*/x", None, r".*/x"), (".*", None, r".*"), ("\\./(a*/)*x", "\\./\\(a*/\\)*x", r"\./(a*/)*x"),
    ("[./a]*x", None, r"[./a]*x"), (".*a/x.*", None, r".*a/x.*"), ("\\./a.*[^/]", None, r"\./a.*[^/]"),
]


def long_path_worker(job):
    """Paths of several hundred to several thousand bytes against ordinary patterns: the answer is a matter of the language, not
    of how long the path is (an engine that gives up here has not answered)."""
    k, seed = job
    st = Stats()
    rng = common.rng_for(seed, "C17long", k)
    base = common.mkscratch("C17l%d" % k)
    try:
        lines, meta = [], {}
        for i, (ext, esc, pyp) in enumerate(LONG_PATTERNS):
            for syntax in ("posix-extended", "emacs", "grep", "posix-basic"):
                pat = ext if syntax == "posix-extended" or esc is None else esc
                if syntax == "posix-basic" and esc is None and "(" in ext:
                    continue
                paths = []
                for _ in range(5):
                    n_ = rng.choice([200, 300, 600, 1100, 2000, 3500])
                    body = "".join(rng.choice(["a/", "a/", "aa/", "a.a/"]) for _ in range(n_ // 2))
                    paths += ["./" + body + "x", "./" + body + "y", "./" + body + "a/x", "./" + body[:-1]]
                args = ["-regextype", syntax, rng.choice(["-regex", "-regex", "-iregex"]), pat]
                cid = "L%d_%d_%s" % (k, i, syntax)
                meta[cid] = (pyp, args, paths)
                lines.append("\t".join([cid, "P", "1", str(len(args))] + [common.hx(a) for a in args] + [common.hx(p_) for p_ in paths]))
        res = common.run_vh("match", lines, base, cwd=base, per_case_timeout=300)
        for cid, (pyp, args, paths) in meta.items():
            r = res.get(cid)
            rp = {"args": args, "path_lengths": [len(p_) for p_ in paths]}
            if r is None or r[0] != "ok" or "P" in r[2]:
                st.violate("hang-or-crash", None, {"args": args, "result": r and r[:2]}, rp)
                continue
            py = re.compile(pyp, re.S | (re.I if "-iregex" in args else 0))
            for p_, b in zip(paths, r[2]):
                want = py.fullmatch(p_) is not None
                st.inc("evaluations")
                st.inc("long_path_evaluations")
                st.inc("long_path_members" if want else "long_path_non_members")
                if b == "E" or (b == "1") != want:
                    st.violate("regex-mismatch", None, {"args": args, "path_length": len(p_), "path_head": p_[:60], "path_tail": p_[-20:],
                                                        "python_fullmatch": want, "find": {"1": True, "0": False}.get(b, "engine gave up"),
                                                        "shape": "long-path"}, rp)
    finally:
        common.force_rmtree(base)
    return st


def newline_worker(job):
    """-iregex is -regex with letter case ignored - and nothing else: on paths and patterns without any letter the two must agree, in
    every syntax, also when the path contains a newline that '.' or a negated set has to consume (what '.' does with a newline is
    the syntax's business and not judged; that -iregex does the same as -regex is)."""
    k, seed = job
    st = Stats()
    rng = common.rng_for(seed, "C17nl", k)
    base = common.mkscratch("C17n%d" % k)
    try:
        lines, meta = [], {}
        pats = ["1/2.3", ".*", "1/.*", ".*3", "1/2[^/]3", "1/2[^4]*", "[^/]*/[^/]*", "1/2.*3", "1/2\n3", ".*[\n].*", "1/..3", "1/2.3.*"]
        paths = ["1/2\n3", "1/2-3", "1/2\n\n3", "\n", "1/\n", "1/23", "1/2\n3\n", "1/2 3", "1/2\t3"]
        for i, pat in enumerate(pats):
            for syntax in SYNTAXES:
                for test in ("-regex", "-iregex"):
                    cid = "n%d_%d_%s_%s" % (k, i, syntax, test)
                    args = ["-regextype", syntax, test, pat]
                    meta[cid] = (pat, syntax, test, args)
                    lines.append("\t".join([cid, "P", "1", str(len(args))] + [common.hx(a) for a in args] + [common.hx(p_) for p_ in paths]))
        res = common.run_vh("match", lines, base, cwd=base, per_case_timeout=60)
        for i, pat in enumerate(pats):
            for syntax in SYNTAXES:
                a = res.get("n%d_%d_%s_-regex" % (k, i, syntax))
                b = res.get("n%d_%d_%s_-iregex" % (k, i, syntax))
                st.inc("evaluations", len(paths))
                st.inc("letter_free_regex_iregex_pairs")
                if a is None or b is None or a[0] != b[0] or (a[0] == "ok" and a[2] != b[2]):
                    st.violate("regex-mismatch", None, {"pattern": pat, "syntax": syntax, "paths": paths, "regex": a and a[:3], "iregex": b and b[:3],
                                                        "shape": "letter-free -regex vs -iregex"}, {"pattern": pat, "syntax": syntax, "paths": paths})
                elif a[0] == "ok" and "1" in a[2]:
                    st.inc("letter_free_pairs_with_members")
    finally:
        common.force_rmtree(base)
    return st


def stacked_worker(job):
    """A quantifier directly followed by '?' in the emacs syntax (x*?, x+?, x??): whether that is read as a second quantifier or as a
    'lazy' marker, the set of strings the pattern accepts is the same - (x*)? - and the WHOLE path has to be in it; a lazy reading
    must not let a shorter first match decide."""
    import re
    k, seed = job
    st = Stats()
    base = common.mkscratch("C17q%d" % k)
    try:
        atoms = [("a", "a"), ("[ab]", "[ab]"), ("\\(ab\\)", "(?:ab)"), (".", "[^\\n]"), ("[^/]", "[^/]")]
        tails = [("", ""), ("b", "b"), ("c*", "c*"), ("/z", "/z")]
        paths = ["r/x", "r/xa", "r/xaa", "r/xaaa", "r/xab", "r/xabab", "r/xb", "r/xaab", "r/xac", "r/xaacc", "r/xa/z", "r/x/z", "r/xq", "r/xaq", "r/xA", "r/xAA"]
        lines, meta = [], {}
        i = 0
        for af, ap in atoms:
            for q in ("*", "+", "?"):
                for tf, tp in tails:
                    for lead in ([], ["-regextype", "emacs"]):
                        for test in ("-regex", "-iregex"):
                            i += 1
                            if i % 2 != k % 2:
                                continue
                            cid = "q%d_%d" % (k, i)
                            pat = "r/x" + af + q + "?" + tf
                            py = "r/x(?:" + ap + q + ")?" + tp
                            args = lead + [test, pat]
                            meta[cid] = (pat, py, test, args)
                            lines.append("\t".join([cid, "P", "1", str(len(args))] + [common.hx(a) for a in args] + [common.hx(p_) for p_ in paths]))
        res = common.run_vh("match", lines, base, cwd=base, per_case_timeout=60)
        for cid, (pat, py, test, args) in meta.items():
            r = res.get(cid)
            want = "".join("1" if re.fullmatch(py, p_, re.I if test == "-iregex" else 0) else "0" for p_ in paths)
            st.inc("evaluations", len(paths))
            st.inc("stacked_quantifier_patterns")
            st.add("distinct", ("stacked", tuple(args)))
            if "1" in want[1:]:
                st.inc("stacked_quantifier_patterns_with_members_longer_than_the_shortest")
            if r is None or r[0] != "ok" or r[2] != want:
                bad = [p_ for p_, g, w in zip(paths, (r[2] if r and r[0] == "ok" else "?" * len(paths)), want) if g != w]
                st.violate("regex-mismatch", None, {"args": args, "pattern": pat, "oracle_pattern": py, "paths_answered_wrongly": bad[:6],
                                                    "expected": want, "find": r and r[:3], "shape": "quantifier directly followed by ?"},
                           {"args": args, "paths": paths})
    finally:
        common.force_rmtree(base)
    return st


def binary_worker(job):
    """The same oracle through the real binary on a real tree: paths come from the walk, selection from -print0."""
    import os
    k, nast, seed = job
    st = Stats()
    rng = common.rng_for(seed, "C17b", k)
    base = common.mkscratch("C17b%d" % k)
    try:
        names = set()
        while len(names) < 25:
            names.add("".join(rng.choice([c for c in PATH_CHARS if c != "/"]) for _ in range(rng.randint(1, 4))))
        names = sorted(n for n in names if n not in (".", ".."))
        os.makedirs(os.path.join(base, "r"))
        allp = ["r"]
        # names that are not valid UTF-8: "the path as -print would print it" is then the text with U+FFFD for the ill-formed bytes,
        # and that whole text has to be in the language
        for raw in rng.sample([b"\xffab", b"f\xffx", b"a\xe9", b"\xfe", b"b\x80b", b"A\xffa"], 3):
            open(os.path.join(os.fsencode(base), b"r", raw), "w").close()
            allp.append("r/" + raw.decode("utf-8", "replace"))
        for i, n in enumerate(names):
            if i % 4 == 0:
                os.makedirs(os.path.join(base, "r", n))
                allp.append("r/" + n)
                for m in names[:6]:
                    open(os.path.join(base, "r", n, m), "w").close()
                    allp.append("r/" + n + "/" + m)
            else:
                open(os.path.join(base, "r", n), "w").close()
                allp.append("r/" + n)
        for _ in range(nast):
            inner = gen(rng)
            ast = ("cat", [("lit", "r"), ("lit", "/"), inner]) if rng.random() < 0.7 else ("cat", [("star", ("dot",)), inner])
            syntax = rng.choice([s for s in SYNTAXES if usable(ast, s)])
            test = "-iregex" if rng.random() < 0.25 else "-regex"
            pat = render(ast, syntax)
            args = [common.FIND, "r", "-regextype", syntax, test, pat, "-print0"]
            rc, out, err, to = common.run_cmd(args, cwd=base, env=common.clean_env(), timeout=60)
            st.inc("binary_runs")
            rp = {"args": args[1:], "tree_paths": allp}
            if to or rc != 0:
                st.violate("binary-failed", None, {"args": args[1:], "rc": rc, "stderr": err[-300:], "timeout": to}, rp)
                continue
            got = set(x.decode("utf-8", "surrogateescape") for x in out.split(b"\0") if x)
            py = Budgeted(re.compile(render(ast, "python"), py_flags(test)))
            for p_ in allp:
                try:
                    want = py.fullmatch(p_) is not None
                    first = py.match(p_) if want else None
                except OracleTooSlow:
                    st.inc("out_of_domain_oracle_too_slow")
                    continue
                st.inc("evaluations")
                if "\ufffd" in p_:
                    st.inc("binary_evaluations_on_paths_that_are_not_utf8")
                    st.inc("raw_path_members" if want else "raw_path_non_members")
                st.inc("binary_members" if want else "binary_non_members")
                g = p_ in got
                if g != want:
                    sig = None
                    m = first
                    if want and not g and m is not None and m.end() < len(p_):
                        sig = "first-match-shorter-than-path"
                    st.violate("regex-mismatch", sig, {"args": args[1:], "path": p_, "python_fullmatch": want, "find": g,
                                                       "python_pattern": render(ast, "python"), "shape": "binary"}, rp)
    finally:
        common.force_rmtree(base)
    return st


def memcheck_worker(job):
    """Pattern rows replayed under valgrind memcheck (Oniguruma compiling and matching every generated pattern in every
    syntax, plus deliberately malformed ones). A crash is a violation; reports without a crash are advisory."""
    k, nast, seed = job
    st = Stats()
    rng = common.rng_for(seed, "C17m", k)
    base = common.mkscratch("C17m%d" % k)
    try:
        lines = []
        for i in range(nast):
            ast = gen(rng)
            paths = paths_for(rng, ast, 9)
            for syntax in SYNTAXES:
                if not usable(ast, syntax):
                    continue
                pat = render(ast, syntax)
                if rng.random() < 0.15:
                    # damage the pattern: the compiler's error paths are exercised too
                    j = rng.randrange(len(pat) + 1)
                    pat = pat[:j] + rng.choice(["(", ")", "[", "\\", "{", "\\(", "\\{", "*", "[[:", "|"]) + pat[j:]
                args = ["-regextype", syntax, rng.choice(["-regex", "-iregex"]), pat]
                lines.append("\t".join(["r%d_%s" % (i, syntax), "P", "1", str(len(args))] + [common.hx(a) for a in args] + [common.hx(x) for x in paths]))
        res, rep = common.run_vh_memcheck("match", lines, base, cwd=base)
        st.inc("memcheck_pattern_rows", rep["answered"])
        st.inc("memcheck_error_reports", rep["errors"])
        if rep["timed_out"]:
            st.notes.append("memcheck run timed out (inconclusive for this shard)")
        elif rep["crashed"]:
            st.violate("memcheck-crash", None, {"rc": rep["rc"], "answered": rep["answered"], "cases": rep["cases"], "log": rep["first"][:600]},
                       {"cases": lines[rep["answered"]:rep["answered"] + 3]})
        if rep["errors"]:
            st.notes.append("memcheck reported %d errors (advisory): %r" % (rep["errors"], rep["kinds"]))
    finally:
        common.force_rmtree(base)
    return st


def self_check():
    # renderings of a fixed AST must read as expected
    ast = ("cat", [("lit", "a"), ("alt", [("lit", "b"), ("cat", [("lit", "b"), ("lit", "+")])]), ("star", ("set", False, [("r", "a", "c")]))])
    exp = {"emacs": "a\\(b\\|b\\+\\)[a-c]*", "posix-extended": "a(b|b\\+)[a-c]*", "grep": "a\\(b\\|b+\\)[a-c]*", "python": "a(b|b\\+)[a-c]*"}
    for s, want in exp.items():
        got = render(ast, s)
        if got != want:
            raise common.Inconclusive("renderer self-check failed for %s: %r != %r" % (s, got, want))
    if re.fullmatch(render(ast, "python"), "ab+cab") is None:
        raise common.Inconclusive("python oracle self-check failed")


def run(ctx):
    ctx.rule = ("random regex ASTs (literals incl. every metacharacter, '.', bracket sets/ranges/negation, groups, alternation, * + ? and "
                "intervals, depth <=4) rendered into emacs / posix-basic / ed / sed / posix-extended / grep syntax using only the operators "
                "that syntax defines, under 8 -regextype scoping shapes, x paths sampled from the AST and mutated (prefixes, extensions, "
                "substitutions, case); every alternation-bearing pattern is also run with all alternations reversed; sequences through one "
                "matcher in which a path the engine gives up on sits between paths it decides; distinct = (syntax, "
                "test, argument vector)")
    ctx.assumptions = ["Python re.fullmatch on the same AST (membership only, no back-references)", "paths without newline; ASCII plus é"]
    self_check()
    nw = common.NCPU
    n = ctx.scale(24000, 1600000)
    ctx.pmap(worker, [(k, n // nw, ctx.seed) for k in range(nw)])
    ng = 4 if ctx.tier == "quick" else 16
    ctx.pmap(giveup_worker, [(k, ctx.seed) for k in range(ng)])
    ctx.require("giveup_sequences", 4)
    ctx.pmap(stacked_worker, [(k, ctx.seed) for k in range(2)])
    ctx.require("stacked_quantifier_patterns_with_members_longer_than_the_shortest", 20)
    ctx.pmap(newline_worker, [(0, ctx.seed)])
    ctx.require("letter_free_pairs_with_members", 10)
    ctx.pmap(long_path_worker, [(k, ctx.seed) for k in range(4 if ctx.tier == "quick" else 16)])
    ctx.require("long_path_members", 20)
    ctx.require("members_after_a_give_up", 4)
    nb = ctx.scale(960, 16000)
    ctx.pmap(binary_worker, [(k, nb // nw, ctx.seed) for k in range(nw)])
    if common.memcheck_available():
        nm = ctx.scale(160, 9600)
        ctx.pmap(memcheck_worker, [(k, max(1, nm // nw), ctx.seed) for k in range(nw)])
        ctx.require("memcheck_pattern_rows", 50)
        ctx.assumptions.append("valgrind memcheck on the release harness: a crash is a violation, reports without a crash are advisory")
    else:
        ctx.stats.notes.append("valgrind not available: memcheck replay skipped")
    for key in ("binary_members", "binary_non_members", "members", "non_members", "feature:alt", "feature:rep", "feature:set", "reversed_alternation_twins", "test:-iregex",
                "shape:in-parens", "shape:two-types", "shape:type-in-parens", "shape:overridden", "syntax:grep", "syntax:sed"):
        ctx.require(key, 5)
